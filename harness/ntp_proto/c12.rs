//! C12 — NTP version negotiation follows the upgrade protocol.
//!
//! Engine E-SEQ: explicit-state search over the REAL `NtpSource` (driven through
//! `handle_timer` / `handle_incoming`), to FIXPOINT, for the five configurations plain V4,
//! plain V5, automatic upgrade, NTS with negotiated V4, NTS with negotiated V5.
//!
//! Events: `T` (timer) and answer datagrams assembled at byte level from the request the
//! source emitted (see `gd_probe_source.rs`): {matching, stale (previous request), unrelated
//! identifier} x {v3, v4, v4+upgrade marker, v5} x {usable, KISS "XXXX", KISS DENY, client
//! mode, stratum 17}; for NTS sources authenticated answers {matching / unrelated id} x
//! {matching / wrong unique identifier} x {v4, v5} x {usable, KISS, DENY} + unauthenticated
//! and replayed ones.
//!
//! `NtpSource` cannot be cloned: a state is represented by the event history reaching it and
//! successors are computed by replaying the history on a fresh source (random identifiers
//! are read back from the emitted requests).
//!
//! Oracle: a reference automaton written from the STATEMENT (`Spec` below), not from the
//! code. Where the statement is silent the automaton is nondeterministic and the check is a
//! refinement check: the set of reference states compatible with everything observed so far
//! must never become empty. Observed are (a) version + upgrade marker of every request sent,
//! (b) whether an answer produced a measurement.
use std::collections::BTreeMap;

use super::common::{self, Ctx};
use crate::source::verif_probe::gd::{
    self as rig, Act, Ans, IdSel, Kiss, Mode, Pv, Rig, UidSel, View,
};

// ---------------------------------------------------------------------------------------
// reference automaton (from the statement)
// ---------------------------------------------------------------------------------------

/// Phases of the reference automaton.
///
/// * `Fixed4` / `Fixed5` – "configured for NTPv4 only ever sends NTPv4 … NTPv5 only ever
///   sends NTPv5"; also "an NTS source uses the version negotiated during key exchange".
/// * `Up(n)` – automatic mode, "sends NTPv4 upgrade requests"; n = matching answers without
///   the marker so far (0..=7); "returns to plain NTPv4 after eight matching answers without it".
/// * `Trial(k)` – "switches to NTPv5 only after a matching answer carrying the upgrade
///   marker"; k = NTPv5 polls sent since the switch that got no matching NTPv5 answer;
///   "falls back to NTPv4 if the upgraded association misses two polls before its first
///   matching NTPv5 answer".
/// * `Plain4` – plain NTPv4 for good (after 8 answers without marker, or after fallback).
/// * `Conf5` – NTPv5 for good (first matching NTPv5 answer seen).
#[derive(Clone, Copy, Debug, PartialEq, Eq, Hash, PartialOrd, Ord)]
pub(super) enum Phase {
    Fixed4,
    Fixed5,
    Up(u8),
    Trial(u8),
    Plain4,
    Conf5,
}

#[derive(Clone, Copy, Debug, PartialEq, Eq, Hash, PartialOrd, Ord)]
pub(super) struct Spec {
    pub phase: Phase,
    /// the most recent request has not produced a measurement yet (C08: "each request
    /// yields at most one measurement")
    pub open: bool,
}

/// What the harness knows about an answer by construction.
#[derive(Clone, Copy, Debug)]
pub(super) struct Facts {
    /// identifier (origin timestamp / client cookie, and unique identifier + authenticity
    /// for NTS) is that of the most recent request, and it arrives inside the poll window
    pub fresh: bool,
    pub version: u8,
    /// v4 answer whose reference timestamp is the upgrade marker
    pub marker: bool,
    /// server mode, not a KISS code, stratum <= 16
    pub usable: bool,
}

impl Spec {
    pub(super) fn initial(mode: Mode) -> Spec {
        Spec {
            phase: match mode {
                Mode::V4 | Mode::NtsV4 => Phase::Fixed4,
                Mode::V5 | Mode::NtsV5 => Phase::Fixed5,
                Mode::Auto => Phase::Up(0),
            },
            open: false,
        }
    }

    pub(super) fn expected_version(&self) -> u8 {
        match self.phase {
            Phase::Fixed4 | Phase::Up(_) | Phase::Plain4 => 4,
            Phase::Fixed5 | Phase::Trial(_) | Phase::Conf5 => 5,
        }
    }

    /// A timer that emits a request: (version it must have, required value of the upgrade
    /// marker if the statement fixes it, successor).
    pub(super) fn on_poll(&self) -> (u8, Option<bool>, Spec) {
        let (v, m, phase) = match self.phase {
            // a V4-only source "only ever sends NTPv4"; whether it may carry the marker is
            // not stated (it never does; counted, not judged)
            Phase::Fixed4 => (4, None, Phase::Fixed4),
            Phase::Fixed5 => (5, None, Phase::Fixed5),
            Phase::Up(n) => (4, Some(true), Phase::Up(n)),
            Phase::Trial(k) if k >= 2 => (4, Some(false), Phase::Plain4),
            Phase::Trial(k) => (5, None, Phase::Trial(k + 1)),
            Phase::Plain4 => (4, Some(false), Phase::Plain4),
            Phase::Conf5 => (5, None, Phase::Conf5),
        };
        (v, m, Spec { phase, open: true })
    }

    fn count(n: u8) -> Phase {
        if n + 1 >= 8 {
            Phase::Plain4
        } else {
            Phase::Up(n + 1)
        }
    }

    /// All (measurement produced?, successor) pairs the statement allows for this answer.
    pub(super) fn on_answer(&self, f: &Facts) -> Vec<(bool, Spec)> {
        let ignore = vec![(false, *self)];
        if !(f.fresh && self.open) {
            // not an answer to the most recent request / late / replay of a used answer
            return ignore;
        }
        let exp = self.expected_version();
        let as_expected = |marker: bool| -> Vec<(bool, Spec)> {
            if f.usable {
                // the one measurement of this request; deterministic
                let phase = match self.phase {
                    Phase::Up(_) if marker => Phase::Trial(0),
                    Phase::Up(n) => Spec::count(n),
                    Phase::Trial(_) => Phase::Conf5,
                    p => p,
                };
                vec![(true, Spec { phase, open: false })]
            } else {
                // KISS / wrong mode / bad stratum: never a measurement. Whether such an
                // answer counts as "matching answer" for the negotiation is not stated:
                // allow "ignored" and "counted"; for a marker-carrying one additionally any
                // budget of already-missed polls (the statement does not say how polls
                // missed before the switch count).
                let phases: Vec<Phase> = match self.phase {
                    Phase::Up(n) if marker => {
                        vec![
                            Phase::Up(n),
                            Phase::Trial(0),
                            Phase::Trial(1),
                            Phase::Trial(2),
                        ]
                    }
                    Phase::Up(n) => vec![Phase::Up(n), Spec::count(n)],
                    Phase::Trial(k) => vec![Phase::Trial(k), Phase::Conf5],
                    p => vec![p],
                };
                phases
                    .into_iter()
                    .map(|phase| (false, Spec { phase, open: true }))
                    .collect()
            }
        };
        if f.version == exp {
            as_expected(f.version == 4 && f.marker)
        } else if f.version == 3 && exp == 4 {
            // NTPv3 shares the NTPv4 header. The statement does not say whether an NTPv3
            // answer to an NTPv4 request is "the expected version": allow ignoring it and
            // treating it like the NTPv4 answer without marker.
            let mut v = ignore;
            v.extend(as_expected(false));
            v
        } else {
            ignore
        }
    }
}

/// The set of reference states compatible with all observations so far.
#[derive(Clone, Debug, PartialEq, Eq, Hash)]
pub(super) struct SpecSet(pub Vec<Spec>);

impl SpecSet {
    pub(super) fn initial(mode: Mode) -> SpecSet {
        SpecSet(vec![Spec::initial(mode)])
    }

    fn norm(mut v: Vec<Spec>) -> Vec<Spec> {
        v.sort();
        v.dedup();
        v
    }

    /// The source emitted a request of `version` with/without the upgrade marker.
    pub(super) fn poll(&mut self, version: u8, marker: bool) -> Result<(), String> {
        let next: Vec<Spec> = self
            .0
            .iter()
            .filter_map(|s| {
                let (v, m, n) = s.on_poll();
                (v == version && m.map_or(true, |m| m == marker)).then_some(n)
            })
            .collect();
        if next.is_empty() {
            let want: Vec<String> = self
                .0
                .iter()
                .map(|s| {
                    let (v, m, _) = s.on_poll();
                    format!(
                        "{:?}->v{}{}",
                        s.phase,
                        v,
                        match m {
                            Some(true) => "+marker",
                            Some(false) => " plain",
                            None => "",
                        }
                    )
                })
                .collect();
            return Err(format!(
                "sent v{version}{} but the reference allows only [{}]",
                if marker { "+marker" } else { "" },
                want.join(", ")
            ));
        }
        self.0 = Self::norm(next);
        Ok(())
    }

    pub(super) fn answer(&mut self, f: &Facts, accepted: bool) -> Result<(), String> {
        let next: Vec<Spec> = self
            .0
            .iter()
            .flat_map(|s| s.on_answer(f))
            .filter(|(acc, _)| *acc == accepted)
            .map(|(_, s)| s)
            .collect();
        if next.is_empty() {
            return Err(format!(
                "answer {:?} {} but reference states {:?} all require the opposite",
                f,
                if accepted {
                    "produced a measurement"
                } else {
                    "was not used"
                },
                self.0
            ));
        }
        self.0 = Self::norm(next);
        Ok(())
    }

    pub(super) fn expects(&self, version: u8) -> bool {
        self.0.iter().any(|s| s.expected_version() == version)
    }
    pub(super) fn any_open(&self) -> bool {
        self.0.iter().any(|s| s.open)
    }
}

// ---------------------------------------------------------------------------------------
// events
// ---------------------------------------------------------------------------------------

#[derive(Clone, Copy, Debug, PartialEq, Eq)]
enum Ev {
    Timer,
    Ans(Ans),
}

impl Ev {
    fn code(&self) -> String {
        match self {
            Ev::Timer => "T".to_string(),
            Ev::Ans(a) => a.code(),
        }
    }
    fn parse(s: &str) -> Option<Ev> {
        if s == "T" {
            Some(Ev::Timer)
        } else {
            Ans::parse(s).map(Ev::Ans)
        }
    }
}

#[derive(Clone, Copy)]
enum Kind {
    Usable,
    KissX,
    KissDeny,
    ClientMode,
    Stratum17,
}

fn kind_fields(k: Kind) -> (u8, u8, Kiss) {
    match k {
        Kind::Usable => (4, 1, Kiss::Unknown),
        Kind::KissX => (4, 0, Kiss::Unknown),
        Kind::KissDeny => (4, 0, Kiss::Deny),
        Kind::ClientMode => (3, 1, Kiss::Unknown),
        Kind::Stratum17 => (4, 17, Kiss::Unknown),
    }
}

fn alphabet(mode: Mode, quick: bool) -> Vec<Ev> {
    let mut v = vec![Ev::Timer];
    let versions = [(4u8, false), (4, true), (5, false), (3, false)];
    if !mode.nts() {
        // Quick tier, automatic mode only: DENY (whose only extra effect is the deny flag,
        // doubling the state space) and stratum 17 (same path as client mode up to the last
        // branch) are left to the thorough tier; V4 / V5 modes keep all five kinds.
        let kinds: &[Kind] = if quick && mode == Mode::Auto {
            &[Kind::Usable, Kind::KissX, Kind::ClientMode]
        } else {
            &[
                Kind::Usable,
                Kind::KissX,
                Kind::KissDeny,
                Kind::ClientMode,
                Kind::Stratum17,
            ]
        };
        for (ver, marker) in versions {
            for k in kinds.iter().copied() {
                let (m, s, kiss) = kind_fields(k);
                v.push(Ev::Ans(Ans::plain(IdSel::Match, ver, marker, m, s, kiss)));
            }
        }
        for id in [IdSel::Stale, IdSel::Random] {
            for (ver, marker) in versions {
                for k in [Kind::Usable, Kind::KissX] {
                    let (m, s, kiss) = kind_fields(k);
                    v.push(Ev::Ans(Ans::plain(id, ver, marker, m, s, kiss)));
                }
            }
        }
    } else {
        for id in [IdSel::Match, IdSel::Random] {
            for uid in [UidSel::Match, UidSel::Wrong] {
                for ver in [4u8, 5] {
                    for k in [Kind::Usable, Kind::KissX, Kind::KissDeny] {
                        let (m, s, kiss) = kind_fields(k);
                        v.push(Ev::Ans(Ans {
                            id,
                            version: ver,
                            marker: false,
                            mode: m,
                            stratum: s,
                            kiss,
                            auth: true,
                            uid,
                        }));
                    }
                }
            }
        }
        for ver in [4u8, 5] {
            // unauthenticated, everything else right
            v.push(Ev::Ans(Ans {
                id: IdSel::Match,
                version: ver,
                marker: false,
                mode: 4,
                stratum: 1,
                kiss: Kiss::Unknown,
                auth: false,
                uid: UidSel::Match,
            }));
            // authentic answer to the previous request, replayed
            v.push(Ev::Ans(Ans {
                id: IdSel::Stale,
                version: ver,
                marker: false,
                mode: 4,
                stratum: 1,
                kiss: Kiss::Unknown,
                auth: true,
                uid: UidSel::Match,
            }));
        }
        v.push(Ev::Ans(Ans::plain(
            IdSel::Match,
            3,
            false,
            4,
            1,
            Kiss::Unknown,
        )));
    }
    v
}

// ---------------------------------------------------------------------------------------
// one step = one call into the real source + the reference
// ---------------------------------------------------------------------------------------

#[derive(Default)]
struct Local(BTreeMap<&'static str, u64>);
impl Local {
    fn inc(&mut self, k: &'static str) {
        *self.0.entry(k).or_insert(0) += 1;
    }
    fn flush(self, ctx: &Ctx) {
        for (k, v) in self.0 {
            ctx.add(k, v);
        }
    }
}

enum Step {
    NotApplicable,
    Ok(String),
    Violation(&'static str, String),
}

fn facts_of(mode: Mode, a: &Ans) -> Facts {
    let fresh = a.id == IdSel::Match && (!mode.nts() || (a.uid == UidSel::Match && a.auth));
    Facts {
        fresh,
        version: a.version,
        marker: a.marker,
        usable: a.usable_fields(),
    }
}

fn step(mode: Mode, r: &mut Rig, spec: &mut SpecSet, ev: &Ev, st: &mut Local) -> Step {
    match ev {
        Ev::Timer => {
            let obs = r.timer();
            match obs.sent {
                Some(i) => {
                    let (ver, marker) = (r.requests[i].version, r.requests[i].marker);
                    if !obs.is_poll() {
                        return Step::Violation(
                            "C12:timer-actions",
                            format!("timer sent a request but returned {:?}", obs.acts),
                        );
                    }
                    if r.requests[i].mode_bits != 3 {
                        return Step::Violation(
                            "C12:timer-actions",
                            format!("request has mode bits {}", r.requests[i].mode_bits),
                        );
                    }
                    st.inc(match (ver, marker) {
                        (4, false) => "sent_v4_plain",
                        (4, true) => "sent_v4_upgrade_request",
                        (5, _) => "sent_v5",
                        _ => "sent_other_version",
                    });
                    if mode == Mode::V4 && marker {
                        st.inc("fixed_v4_requests_with_marker");
                    }
                    let before = spec.clone();
                    if let Err(e) = spec.poll(ver, marker) {
                        let class = match mode {
                            Mode::V4 | Mode::V5 => "C12:fixed-mode-sent-version",
                            Mode::Auto => "C12:auto-sent-version",
                            Mode::NtsV4 | Mode::NtsV5 => "C12:nts-sent-version",
                        };
                        return Step::Violation(class, e);
                    }
                    if before
                        .0
                        .iter()
                        .any(|s| matches!(s.phase, Phase::Trial(k) if k >= 2))
                        && ver == 4
                    {
                        st.inc("fallbacks_to_v4");
                        // observation (allowed by the nondeterministic reference, see
                        // notes/gd.md): fallback although fewer than two NTPv5 polls were sent
                        // since the switch — only reachable through an unusable answer
                        // carrying the marker while polls were already being missed
                        let v5_polls = r.requests[..i]
                            .iter()
                            .rev()
                            .take_while(|q| q.version == 5)
                            .count();
                        if v5_polls < 2 {
                            st.inc(
                                "fallbacks_to_v4_before_two_v5_polls_after_unusable_marker_answer",
                            );
                        }
                    }
                    Step::Ok(format!(
                        "sent v{ver}{}",
                        if marker { "+marker" } else { "" }
                    ))
                }
                None => {
                    if !(obs.is_reset() || obs.is_demobilize()) {
                        return Step::Violation(
                            "C12:timer-actions",
                            format!("timer returned {:?}", obs.acts),
                        );
                    }
                    st.inc("timer_without_request_reset_or_demobilize");
                    Step::Ok(format!("{:?}", obs.acts))
                }
            }
        }
        Ev::Ans(a) => {
            let Some((_bytes, obs)) = r.deliver(a) else {
                return Step::NotApplicable;
            };
            let f = facts_of(mode, a);
            let accepted = obs.accepted();
            if accepted {
                st.inc(match a.version {
                    3 => "accepted_v3",
                    4 => "accepted_v4",
                    _ => "accepted_v5",
                });
            } else if f.fresh && f.usable && spec.any_open() {
                st.inc("rejected_fresh_usable_answer_of_unexpected_version");
            } else {
                st.inc("answers_not_used");
            }
            let before = spec.clone();
            if let Err(e) = spec.answer(&f, accepted) {
                let class = if accepted
                    && !before.expects(a.version)
                    && !(a.version == 3 && before.expects(4))
                {
                    "C12:accepted-unexpected-version"
                } else if accepted {
                    "C12:accepted-not-fresh-or-unusable"
                } else {
                    "C12:rejected-expected-answer"
                };
                return Step::Violation(class, e);
            }
            if spec.0.len() > 1 {
                st.inc("steps_with_several_reference_states");
            }
            for s in &spec.0 {
                if !before.0.iter().any(|b| b.phase == s.phase) {
                    st.inc(match s.phase {
                        Phase::Trial(_) => "ref_switch_to_v5",
                        Phase::Plain4 => "ref_plain_v4_after_8_answers",
                        Phase::Conf5 => "ref_v5_confirmed",
                        Phase::Up(_) => "ref_upgrade_counter_advanced",
                        _ => "ref_other",
                    });
                }
            }
            Step::Ok(format!(
                "{}{:?}",
                if accepted { "accepted " } else { "not-used " },
                obs.acts
            ))
        }
    }
}

// ---------------------------------------------------------------------------------------
// canonical key
// ---------------------------------------------------------------------------------------

/// Key on which histories are merged. Two histories with equal keys are taken to have the
/// same future; every component and abstraction:
/// * `view` is the complete behavioural state of `NtpSource` relevant here (reach, tries,
///   protocol version incl. `tries_left`, remote/last poll exponent, deny flag, stratum,
///   NTS cookie count, pending request present).
///   - `tries` is saturated at 3: the code only evaluates `tries >= 3`.
///   - the pending request is reduced to present/absent: no time passes in this check, so a
///     present request is always inside its window; its identifier is random and only ever
///     compared for equality with an answer the harness derives from the emitted request.
///   - NOT in the key: reference id, the bloom-filter cursor (only read to build the
///     ReferenceIdRequest field and the usability snapshot, neither observed here; the
///     harness never sends ReferenceIdResponse fields so it never moves), the scratch
///     buffer, cookie *contents* (only their count influences control flow).
/// * `spec` the set of reference states, `nreq` whether 0, 1 or >= 2 requests exist (which
///   answer symbols are applicable).
#[derive(Clone, Debug, PartialEq, Eq, Hash)]
struct Key {
    view: View,
    spec: SpecSet,
    nreq: u8,
}

fn key_of(r: &Rig, spec: &SpecSet) -> Key {
    let mut view = r.view();
    view.tries = view.tries.min(3);
    view.pending = view.pending.map(|_| 0);
    Key {
        view,
        spec: spec.clone(),
        nreq: r.requests.len().min(2) as u8,
    }
}

fn trace_of(mode: Mode, alpha: &[Ev], hist: &[u16], last: Option<&Ev>) -> String {
    let mut codes: Vec<String> = hist.iter().map(|e| alpha[*e as usize].code()).collect();
    if let Some(e) = last {
        codes.push(e.code());
    }
    format!("{};{}", mode.name(), codes.join(","))
}

/// Replay a history without judging (it was judged when first explored).
fn replay_prefix(mode: Mode, alpha: &[Ev], hist: &[u16]) -> (Rig, SpecSet) {
    let mut r = Rig::new(mode);
    let mut spec = SpecSet::initial(mode);
    let mut sink = Local::default();
    for e in hist {
        let _ = step(mode, &mut r, &mut spec, &alpha[*e as usize], &mut sink);
    }
    (r, spec)
}

fn explore(ctx: &Ctx, mode: Mode) -> rig::LevelStats {
    let alpha = alphabet(mode, ctx.quick());
    let init_key = super::block_on_paused(async {
        let r = Rig::new(mode);
        key_of(&r, &SpecSet::initial(mode))
    });
    let alpha_ref = &alpha;
    let stats = rig::level_bfs(
        init_key,
        200,
        |rt, hist| {
            rt.block_on(async {
                let mut st = Local::default();
                let mut out = Vec::new();
                let (r0, s0) = replay_prefix(mode, alpha_ref, hist);
                let base = key_of(&r0, &s0);
                let mut cur = Some((r0, s0));
                for (ei, ev) in alpha_ref.iter().enumerate() {
                    if cur.is_none() {
                        cur = Some(replay_prefix(mode, alpha_ref, hist));
                    }
                    let (r, s) = cur.as_mut().unwrap();
                    match step(mode, r, s, ev, &mut st) {
                        Step::NotApplicable => {}
                        Step::Violation(class, what) => {
                            ctx.violation(class, what, trace_of(mode, alpha_ref, hist, Some(ev)));
                            st.inc("transitions_violating");
                            cur = None; // successors of a violating step are not explored
                        }
                        Step::Ok(_) => {
                            let k = key_of(r, s);
                            if matches!(k.view.pv, Pv::Upgraded) {
                                st.inc("impl_steps_in_upgraded_state");
                            }
                            // A self-loop (key unchanged) lets the same object take the next
                            // event: exactly as sound as merging on the key.
                            let same = k == base;
                            if !same {
                                ctx.distinct(common::hash_of(&(mode, &k)));
                                cur = None;
                            } else {
                                st.inc("self_loops");
                            }
                            out.push((ei as u16, k));
                        }
                    }
                }
                st.flush(ctx);
                out
            })
        },
        |depth, width| {
            if ctx.over_budget() {
                ctx.cap_hit(&format!(
                    "mode {}: budget used up before depth {} (frontier {}); complete below",
                    mode.name(),
                    depth,
                    width
                ));
                return false;
            }
            true
        },
    );
    ctx.add("states", stats.states);
    ctx.add("transitions", stats.transitions);
    ctx.add("evaluations", stats.transitions);
    ctx.max("max_depth", stats.max_depth);
    ctx.note(
        &format!("mode_{}", mode.name()),
        &format!(
            "alphabet {} events, {} states, {} transitions, depth {}, fixpoint {}",
            alpha.len(),
            stats.states,
            stats.transitions,
            stats.max_depth,
            stats.fixpoint
        ),
    );
    stats
}

fn replay(ctx: &Ctx, trace: &str) -> String {
    let Some((m, evs)) = trace.split_once(';') else {
        return "bad trace".into();
    };
    let Some(mode) = Mode::parse(m) else {
        return "bad mode".into();
    };
    super::block_on_paused(async {
        let mut r = Rig::new(mode);
        let mut spec = SpecSet::initial(mode);
        let mut st = Local::default();
        let mut obs = Vec::new();
        for code in evs.split(',').filter(|s| !s.is_empty()) {
            let Some(ev) = Ev::parse(code) else {
                obs.push(format!("{code}=?"));
                continue;
            };
            match step(mode, &mut r, &mut spec, &ev, &mut st) {
                Step::NotApplicable => obs.push(format!("{code}=n/a")),
                Step::Ok(o) => obs.push(format!("{code}={o}|{:?}", r.view().pv)),
                Step::Violation(class, what) => {
                    ctx.violation(class, what.clone(), trace);
                    obs.push(format!("{code}=VIOLATION {class}: {what}"));
                    break;
                }
            }
        }
        obs.join(" ; ")
    })
}

#[test]
fn check() {
    let ctx = Ctx::new("C12");
    if let Some(t) = common::replay_trace() {
        let a = replay(&ctx, &t);
        let b = replay(&ctx, &t);
        common::report_replay("C12", &a, &b, ctx.violation_count() > 0);
        return;
    }
    ctx.rule(
        "Explicit-state search to fixpoint over the real NtpSource for 5 configurations (plain V4, V5, automatic, \
         NTS negotiated V4, NTS negotiated V5). Events: timer; plain: answers {matching, previous request, unrelated id} \
         x {v3, v4, v4+upgrade marker, v5} x {usable, KISS XXXX, KISS DENY, client mode, stratum 17} (37 events; quick tier, automatic mode: without DENY and stratum 17, 29 events); NTS: \
         authenticated answers {matching, unrelated id} x {matching, wrong UID} x {v4, v5} x {usable, KISS, DENY} + \
         unauthenticated, replayed and v3 answers (30 events). Distinct & non-trivial = a (configuration, canonical state) \
         reached by a transition that changed the state; canonical state = private source state (reach, tries<=3, \
         protocol version + tries_left, poll exponents, deny flag, stratum, cookie count, request pending) + set of \
         reference-automaton states.",
    );
    ctx.assume("no time passes between events (out-of-window answers are C08's subject); poll limits are the defaults 4..10 and the controller always desires the minimum");
    ctx.assume("where the statement is silent the reference automaton allows every outcome: KISS / wrong-mode / stratum>16 answers may or may not count as 'matching answer' for the negotiation; an NTPv3 answer to an NTPv4 request may be ignored or treated as NTPv4 without marker; a V4-only source may or may not set the marker");
    ctx.assume("NTS sources are constructed with ProtocolVersion V4 or V5 only, as nts::KeyExchangeClient does (never V4UpgradingToV5)");
    let mut all_fix = true;
    // cheapest configurations first, so that a budget cap can only cut the deepest levels
    // of the automatic mode
    for mode in [Mode::V4, Mode::V5, Mode::NtsV4, Mode::NtsV5, Mode::Auto] {
        let s = explore(&ctx, mode);
        all_fix &= s.fixpoint;
    }
    ctx.sample("auto;T,A:M:4:m:4:1:X:-:- -> UpgradedToV5, next timers send v5, v5, then fall back to plain v4");
    ctx.sample("auto: 8 x (T, matching usable v4 answer without marker) -> plain v4 without marker from the 9th request on");
    ctx.exhaustive(all_fix);
    ctx.finish();
}
