//! C02: not implemented yet.
