//! C02 — Frequency corrections stay within the configured maximum.
//!
//! Same explicit-state engine as C01 (`super::c01`: real `KalmanClockController`, real
//! source controllers, steering fed back, recording mock clock, BFS with exact-bit keys),
//! own alphabet / configurations / oracle.
//!
//! Oracle (from the statement):
//!  * every `set_frequency(f)` recorded by the mock clock: `|f| <= maximum_frequency_steer`
//!    (a NaN fails the comparison) — whatever the kernel frequency at start-up was;
//!  * after every controller update the extra frequency of the running slew (probe:
//!    `desired_freq`) satisfies `|desired_freq| <= slew_maximum_frequency_offset`;
//!  * black-box cross-check of the same bound: when the slew-end timer fires, the relative
//!    frequency change handed to the clock, `(1+f_new)/(1+f_old)-1`, is the extra frequency
//!    being removed (or less, if the clamp engaged) and must not exceed the slew maximum.
use std::hash::Hash;

use super::c01::{
    self, A, B, Call, Cfg, End, Ev, G, MS, Report, S, Spec, Transition, explore, init_burst,
    prefix_usable, replay_with, run_specs,
};
use super::common::{self, Ctx};

#[derive(Default, Hash, Clone, Debug)]
struct M02 {
    /// bits of the last frequency handed to the clock
    last: Option<u64>,
}

fn judge02(cfg: &Cfg, m: &mut M02, tr: &Transition, mut rep: Option<&mut Report>) {
    for u in &tr.upds {
        for c in &u.calls {
            let Call::SetFreq(f) = c else { continue };
            let f = *f;
            if let Some(r) = rep.as_deref_mut() {
                r.inc("set_frequency_calls");
                if !(f.abs() <= cfg.max_steer) {
                    r.viol(
                        "C02:frequency-outside-maximum",
                        format!("set_frequency({f:e}) with maximum_frequency_steer {:e} (kernel frequency at start {:e})", cfg.max_steer, cfg.init_freq),
                    );
                } else if f.abs() == cfg.max_steer {
                    r.inc("set_frequency_at_the_limit");
                }
                if f != 0.0 {
                    r.note = Some(format!("set_frequency({f:e})"));
                }
                if u.kind == 1 {
                    if let Some(prev) = m.last.map(f64::from_bits) {
                        let rel = (1.0 + f) / (1.0 + prev) - 1.0;
                        if prev.abs() <= cfg.max_steer
                            && !(rel.abs() <= cfg.slew_max * (1.0 + 1e-9) + 1e-15)
                        {
                            r.viol(
                                "C02:slew-end-exceeds-slew-maximum",
                                format!("slew end changed the frequency by {rel:e} (from {prev:e} to {f:e}), slew maximum {:e}", cfg.slew_max),
                            );
                        }
                        if rel != 0.0 {
                            r.inc("slew_ends_removing_extra_frequency");
                        }
                    }
                }
            }
            m.last = Some(f.to_bits());
        }
        match &u.end {
            End::Ok => {
                let desired = u.view.1;
                if let Some(r) = rep.as_deref_mut() {
                    if !(desired.abs() <= cfg.slew_max) {
                        r.viol(
                            "C02:slew-frequency-outside-maximum",
                            format!("running slew uses extra frequency {desired:e}, slew_maximum_frequency_offset {:e}", cfg.slew_max),
                        );
                    }
                    if u.next_update.is_some() {
                        r.inc("slews_started");
                        if desired.abs() == cfg.slew_max {
                            r.inc("slews_at_the_slew_maximum");
                        }
                        r.note = Some(format!(
                            "slew started, extra frequency {desired:e} for {:?}",
                            u.next_update.unwrap()
                        ));
                    }
                    if u.kind == 0 {
                        r.inc(if u.used.is_some() {
                            "updates_with_consensus"
                        } else {
                            "updates_without_consensus"
                        });
                    }
                    if u.calls.iter().any(|c| matches!(c, Call::Step(_))) {
                        r.inc("steps");
                    }
                }
            }
            End::Exit => {
                if let Some(r) = rep.as_deref_mut() {
                    r.inc("exits");
                }
            }
            End::Panic(site, msg) => {
                if let Some(r) = rep.as_deref_mut() {
                    r.inc("other_panics");
                    r.viol("C02:panic", format!("{site}: {msg}"));
                }
            }
        }
    }
}

fn starts02(cfg: &Cfg) -> Vec<(String, Vec<Ev>)> {
    let mut v = Vec::new();
    v.push(("fresh".to_string(), prefix_usable()));
    let mut p = prefix_usable();
    p.push(init_burst(A));
    v.push(("A-stable".to_string(), p));
    let mut p = prefix_usable();
    p.push(init_burst(A));
    p.push(init_burst(B));
    v.push(("AB-stable".to_string(), p));
    let mut p = prefix_usable();
    if cfg.step_threshold > 1.0 {
        p.push(Ev::meas(A, 700 * S, MS, S));
    } else {
        p.push(init_burst(A));
        p.push(Ev::meas(A, 5 * MS, MS, S));
    }
    v.push(("mid-slew".to_string(), p));
    v
}

fn alphabet02_full() -> Vec<Ev> {
    let mut v = Vec::new();
    let offs = [
        0,
        2 * MS,
        -5 * MS,
        9 * MS,
        -9 * MS,
        S / 5,
        -S / 5,
        700 * S,
        -700 * S,
        90_000 * S,
        -(1i64 << 62),
    ];
    for off in offs {
        for dt in [S, 64 * S, 1024 * S] {
            v.push(Ev::meas(A, off, MS, dt));
        }
    }
    for off in [0, 9 * MS, -700 * S] {
        v.push(Ev::meas(B, off, MS, 64 * S));
    }
    for off in [0, -9 * MS, 700 * S, i64::MAX] {
        v.push(Ev::meas(G, off, 0, S));
    }
    v.push(init_burst(B));
    v.push(init_burst(G));
    v.push(Ev::burst(A, 20 * MS, MS, 16 * S, 8, MS / 10, MS / 50));
    v.push(Ev::Tick);
    v.push(Ev::Usable { src: A, on: false });
    v.push(Ev::Remove { src: A });
    v
}

fn alphabet02_core() -> Vec<Ev> {
    vec![
        Ev::meas(A, 0, MS, S),
        Ev::meas(A, 5 * MS, MS, 64 * S),
        Ev::meas(A, -9 * MS, MS, S),
        Ev::meas(A, 700 * S, MS, S),
        Ev::meas(A, -S / 5, MS, 1024 * S),
        Ev::meas(B, 700 * S, MS, 64 * S),
        Ev::meas(G, 9 * MS, 0, S),
        Ev::Tick,
    ]
}

fn configs02(quick: bool) -> Vec<Cfg> {
    let mut v = Vec::new();
    for init_freq in [0.0, 400e-6, -600e-6, 0.5] {
        for max_steer in [495e-6, 1e-6] {
            for slew_max in [200e-6, 1e-3] {
                for slew_min_dur in [8.0, 1e-3] {
                    for step_threshold in [0.010, 1800.0] {
                        if quick && slew_min_dur == 1e-3 && step_threshold == 0.010 {
                            // quick tier: 3 of the 4 (slew_minimum_duration, step_threshold) pairs
                            continue;
                        }
                        let i = v.len();
                        v.push(Cfg {
                            init_freq,
                            max_steer,
                            slew_max,
                            slew_min_dur,
                            step_threshold,
                            order: (i % 2) as u8,
                            min_agree: 1,
                            ..Cfg::default()
                        });
                    }
                }
            }
        }
    }
    if !quick {
        // the shipped panic thresholds and a two-source quorum on top of the grid
        let n = v.len();
        for i in 0..n {
            if i % 4 == 0 {
                let mut c = v[i].clone();
                c.startup = (None, Some(1800 * S));
                c.single = (Some(1000 * S), Some(1000 * S));
                c.min_agree = 2;
                v.push(c);
            }
        }
    }
    v
}

fn replay(ctx: &Ctx, trace: &str) -> String {
    replay_with::<M02, _>(ctx, trace, &judge02)
}

#[test]
fn check() {
    let ctx = Ctx::new("C02");
    if let Some(t) = common::replay_trace() {
        let a = replay(&ctx, &t);
        let b = replay(&ctx, &t);
        common::report_replay("C02", &a, &b, ctx.violation_count() > 0);
        return;
    }
    let quick = ctx.quick();
    let full = alphabet02_full();
    let core = alphabet02_core();
    let (d_full, d_core) = if quick { (2, 4) } else { (3, 5) };
    ctx.rule(&format!(
        "BFS over event histories of the real KalmanClockController + real source controllers for every algorithm configuration in \
         kernel start frequency {{0, 400 ppm, -600 ppm, 0.5}} x maximum_frequency_steer {{495 ppm, 1 ppm}} x slew_maximum_frequency_offset {{200 ppm, 1000 ppm}} \
         x slew_minimum_duration {{8 s, 1 ms}} x step_threshold {{10 ms, 1800 s}} (quick tier leaves out the pair 1 ms/10 ms; HashMap order alternating; thorough adds shipped panic thresholds + quorum 2), \
         from 4 start states (fresh / A in Kalman stage / A and B in Kalman stage / slew in flight): all histories of <= {d_full} events over the {}-symbol \
         full alphabet (A offsets 0,2,-5,+-9 ms,+-0.2 s,+-700 s,90000 s,-2^30 s at dt 1|64|1024 s; B, G measurements; initialisation bursts; slew-end timer; \
         usable off; remove) and <= {d_core} events over the {}-symbol core alphabet. States deduplicated on exact bit patterns. \
         Distinct & non-trivial = distinct end state reached by a transition that invoked the controller.",
        full.len(),
        core.len()
    ));
    ctx.assume("the mock clock applies a frequency exactly as requested and reports the frequency given as 'kernel frequency at start' until the daemon first sets one");
    ctx.assume("the extra frequency of a slew is read from the controller's private desired_freq through a read-only probe; the slew-end cross-check uses only set_frequency arguments");
    ctx.note(
        "alphabet_full",
        &full
            .iter()
            .map(|e| e.encode())
            .collect::<Vec<_>>()
            .join(" "),
    );
    ctx.note(
        "alphabet_core",
        &core
            .iter()
            .map(|e| e.encode())
            .collect::<Vec<_>>()
            .join(" "),
    );
    let cfgs = configs02(quick);
    ctx.set("configurations", cfgs.len() as u64);
    let mut specs = Vec::new();
    for cfg in &cfgs {
        for (name, prefix) in starts02(cfg) {
            for (alpha, depth, tag) in [(&full, d_full, "full"), (&core, d_core, "core")] {
                specs.push(Spec {
                    rank: 0,
                    name: format!("{name}/{tag}"),
                    cfg: cfg.clone(),
                    prefix: prefix.clone(),
                    alphabet: alpha.clone(),
                    depth,
                });
            }
        }
    }
    ctx.set("explorations", specs.len() as u64);
    let complete = run_specs::<M02, _>(&ctx, &specs, &judge02);
    ctx.exhaustive(complete);
    ctx.finish();
}
