//! Group ga probe, child of `ntp_proto::algorithm::kalman::source::verif_probe`.
//!
//! Same technique as `ga_probe_kalman.rs`: `pub(crate)` inherent `ga_*` methods on the
//! (publicly re-exported) source controller types, because the module path is private.
//! Read-only.
#![allow(dead_code)]

use super::super::{
    AveragingBuffer, FixedMeasurementNoise, KalmanSourceController, OneWayKalmanSourceController,
    SourceStateInner, TwoWayKalmanSourceController,
};
use crate::algorithm::InternalMeasurement;
use crate::packet::NtpLeapIndicator;
use crate::time_types::{NtpDuration, NtpTimestamp};

fn dur_units(d: NtpDuration) -> i64 {
    u64::from_be_bytes((NtpTimestamp::from_fixed_int(0) + d).to_bits()) as i64
}

fn ts_units(t: NtpTimestamp) -> u64 {
    u64::from_be_bytes(t.to_bits())
}

fn leap_code(l: NtpLeapIndicator) -> u64 {
    match l {
        NtpLeapIndicator::NoWarning => 0,
        NtpLeapIndicator::Leap61 => 1,
        NtpLeapIndicator::Leap59 => 2,
        NtpLeapIndicator::Unknown => 3,
        NtpLeapIndicator::Unsynchronized => 4,
    }
}

trait Words {
    fn words(&self, out: &mut Vec<u64>);
}

impl Words for AveragingBuffer {
    fn words(&self, out: &mut Vec<u64>) {
        for d in self.data {
            out.push(d.to_bits());
        }
        out.push(self.next_idx as u64);
    }
}

impl Words for FixedMeasurementNoise {
    fn words(&self, out: &mut Vec<u64>) {
        out.push(self.precision.to_bits());
        out.push(self.accuracy.to_bits());
    }
}

impl Words for NtpDuration {
    fn words(&self, out: &mut Vec<u64>) {
        out.push(dur_units(*self) as u64);
    }
}

impl Words for () {
    fn words(&self, _out: &mut Vec<u64>) {}
}

fn meas_words<D: Words + core::fmt::Debug + Copy + Clone>(
    m: &InternalMeasurement<D>,
    out: &mut Vec<u64>,
) {
    m.delay.words(out);
    out.push(dur_units(m.offset) as u64);
    out.push(ts_units(m.localtime));
    out.push(dur_units(m.root_delay) as u64);
    out.push(dur_units(m.root_dispersion) as u64);
    out.push(leap_code(m.leap));
    out.push(m.precision as u8 as u64);
}

macro_rules! ga_source_probe {
    ($ty:ty) => {
        impl $ty {
            /// Exact bit patterns of the complete private state. `last_monotime` enters as
            /// its distance to `now` (only that difference is ever used by the filter).
            pub(crate) fn ga_state_words(&self, now: tokio::time::Instant, out: &mut Vec<u64>) {
                out.push(self.index.0);
                out.push(self.period.map_or(u64::MAX, f64::to_bits));
                match &self.state.0 {
                    SourceStateInner::Initial(f) => {
                        out.push(0);
                        f.noise_estimator.words(out);
                        f.init_offset.words(out);
                        match &f.last_measurement {
                            None => out.push(0),
                            Some(m) => {
                                out.push(1);
                                meas_words(m, out);
                            }
                        }
                        out.push(f.samples as u64);
                    }
                    SourceStateInner::Stable(f) => {
                        out.push(1);
                        out.push(f.state.state.ventry(0).to_bits());
                        out.push(f.state.state.ventry(1).to_bits());
                        for (i, j) in [(0, 0), (0, 1), (1, 0), (1, 1)] {
                            out.push(f.state.uncertainty.entry(i, j).to_bits());
                        }
                        out.push(ts_units(f.state.time));
                        out.push(f.clock_wander.to_bits());
                        f.noise_estimator.words(out);
                        out.push(f.precision_score as u32 as u64);
                        out.push(f.poll_score as u32 as u64);
                        out.push(f.desired_poll_interval.as_log() as u8 as u64);
                        meas_words(&f.last_measurement, out);
                        let d = now
                            .checked_duration_since(f.last_monotime)
                            .unwrap_or(std::time::Duration::ZERO);
                        out.push(d.as_secs());
                        out.push(d.subsec_nanos() as u64);
                        out.push(f.prev_was_outlier as u64);
                        out.push(ts_units(f.last_iter));
                    }
                }
            }

            /// 0 = no sample yet, 1..=7 = initial phase with that many samples, 8 = Kalman stage.
            pub(crate) fn ga_phase(&self) -> u8 {
                match &self.state.0 {
                    SourceStateInner::Initial(f) => f.samples.clamp(0, 7) as u8,
                    SourceStateInner::Stable(_) => 8,
                }
            }

            /// f64 view of the snapshot `observe()` would be built from:
            /// [offset, frequency, p00, p01, p10, p11, wander, delay]; None = no snapshot.
            pub(crate) fn ga_snapshot_f64s(&self) -> Option<[f64; 8]> {
                self.state
                    .snapshot(self.index, &self.algo_config, self.period)
                    .map(|s| crate::algorithm::kalman::verif_probe::ga::snap_f64s(&s))
            }

            /// (clock_wander, precision_score, poll_score) in the Kalman stage.
            pub(crate) fn ga_scores(&self) -> Option<(f64, i32, i32)> {
                match &self.state.0 {
                    SourceStateInner::Initial(_) => None,
                    SourceStateInner::Stable(f) => {
                        Some((f.clock_wander, f.precision_score, f.poll_score))
                    }
                }
            }
        }
    };
}

ga_source_probe!(TwoWayKalmanSourceController);
ga_source_probe!(OneWayKalmanSourceController);
