//! Group gb probe, child of `ntp_proto::algorithm::kalman::verif_probe` (hook H2).
//!
//! `algorithm::kalman` is a private module, so nothing in here can be *named* from the
//! harness (`crate::verif`). The probe therefore exposes itself through cfg-gated
//! **inherent methods** (`verif_gb_*`) on types the harness can name
//! (`AlgorithmConfig`, `KalmanClockController`, `KalmanSourceMessage`): inherent impls may
//! live in any module of the crate, see this module's ancestors' private items, and are
//! callable crate-wide. Data crosses the boundary as plain tuples.
//!
//! Read / construct / call only:
//! * build exact `SourceSnapshot`s from plain numbers and run the real `select` and
//!   `combine` (which calls the private `vote_leap`) on them,
//! * read the snapshot carried by a `KalmanSourceMessage`,
//! * read the controller's source table and time snapshot.
#![allow(dead_code)]

use super::super::{
    KalmanClockController, KalmanSourceMessage, SourceSnapshot,
    combiner::combine,
    config::AlgorithmConfig,
    matrix::{Matrix, Vector},
    select::select,
    source::KalmanState,
};
use crate::{
    ClockId,
    clock::NtpClock,
    config::SynchronizationConfig,
    packet::NtpLeapIndicator,
    system::TimeSnapshot,
    time_types::{NtpDuration, NtpTimestamp},
};

/// Plain-number view of a source snapshot:
/// (id, offset s, offset standard deviation s, delay s, period, leap).
pub(crate) type Snap = (u64, f64, f64, f64, Option<f64>, NtpLeapIndicator);

/// (ids returned by `select` in its order, `combine(..).sources`, `combine(..).leap_indicator`)
pub(crate) type Outcome = (Vec<u64>, Option<Vec<u64>>, Option<NtpLeapIndicator>);

fn build(s: &Snap) -> SourceSnapshot {
    SourceSnapshot {
        index: ClockId(s.0),
        state: KalmanState {
            state: Vector::new_vector([s.1, 0.0]),
            uncertainty: Matrix::new([[s.2 * s.2, 0.0], [0.0, 1e-12]]),
            time: NtpTimestamp::default(),
        },
        wander: 0.0,
        delay: s.3,
        period: s.4,
        source_uncertainty: NtpDuration::ZERO,
        source_delay: NtpDuration::ZERO,
        leap_indicator: s.5,
        last_update: NtpTimestamp::default(),
    }
}

fn view(s: &SourceSnapshot) -> Snap {
    (
        s.index.0,
        s.offset(),
        s.offset_uncertainty(),
        s.delay,
        s.period,
        s.leap_indicator,
    )
}

impl AlgorithmConfig {
    /// Run the real `select` then the real `combine` on exactly these candidates.
    pub(crate) fn verif_gb_select_combine(&self, min_agreeing: usize, cands: &[Snap]) -> Outcome {
        let sync = SynchronizationConfig {
            minimum_agreeing_sources: min_agreeing,
            ..SynchronizationConfig::default()
        };
        let c: Vec<SourceSnapshot> = cands.iter().map(build).collect();
        let sel = select(&sync, self, &c);
        let comb = combine(&sel, self);
        (
            sel.iter().map(|s| s.index.0).collect(),
            comb.as_ref()
                .map(|c| c.sources.iter().map(|i| i.0).collect()),
            comb.and_then(|c| c.leap_indicator),
        )
    }

    /// Only the real `select`; bit mask over the selected ids (ids must be < 32).
    pub(crate) fn verif_gb_select_mask(&self, min_agreeing: usize, cands: &[Snap]) -> u32 {
        let sync = SynchronizationConfig {
            minimum_agreeing_sources: min_agreeing,
            ..SynchronizationConfig::default()
        };
        let c: Vec<SourceSnapshot> = cands.iter().map(build).collect();
        let sel = select(&sync, self, &c);
        let mut m = 0u32;
        for s in &sel {
            m |= 1 << (s.index.0 as u32);
        }
        m
    }

    /// The real `combine` (and through it the private `vote_leap`) on a given selection:
    /// (combine returned Some, its leap indicator).
    pub(crate) fn verif_gb_combine_leap(
        &self,
        selection: &[Snap],
    ) -> (bool, Option<NtpLeapIndicator>) {
        let c: Vec<SourceSnapshot> = selection.iter().map(build).collect();
        match combine(&c, self) {
            Some(c) => (true, c.leap_indicator),
            None => (false, None),
        }
    }
}

impl KalmanSourceMessage {
    /// The snapshot a source controller sent to the clock controller.
    pub(crate) fn verif_gb_snap(&self) -> Snap {
        view(&self.inner)
    }
}

impl<C: NtpClock> KalmanClockController<C> {
    /// The controller's source table, sorted by id: (id, snapshot, usable).
    pub(crate) fn verif_gb_table(&self) -> Vec<(u64, Option<Snap>, bool)> {
        let mut v: Vec<_> = self
            .sources
            .iter()
            .map(|(id, (s, usable))| (id.0, s.as_ref().map(view), *usable))
            .collect();
        v.sort_by_key(|e| e.0);
        v
    }

    pub(crate) fn verif_gb_timedata(&self) -> TimeSnapshot {
        self.timedata
    }
}
