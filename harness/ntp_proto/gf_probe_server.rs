//! Group gf probe, child of `crate::server::verif_probe` (hook H4).
//!
//! Read / clone / construct / call only: drives the private `TimestampedCache` with
//! synthetic instants and exposes the (RandomState dependent) slot index of an address,
//! both for a stand-alone cache and for the cache inside a `Server`.
use std::net::IpAddr;
use std::time::{Duration, Instant};

use super::super::{Server, TimestampedCache};

pub(crate) struct Cache(TimestampedCache<IpAddr>);

impl Cache {
    pub(crate) fn new(size: usize) -> Self {
        Cache(TimestampedCache::new(size))
    }

    /// Same hash state, same contents (the real type is not `Clone`).
    pub(crate) fn fork(&self) -> Self {
        Cache(TimestampedCache {
            randomstate: self.0.randomstate.clone(),
            elements: self.0.elements.clone(),
        })
    }

    pub(crate) fn size(&self) -> usize {
        self.0.elements.len()
    }

    /// Slot the address hashes to in THIS cache instance; `None` for a size-0 cache.
    pub(crate) fn slot(&self, a: &IpAddr) -> Option<usize> {
        if self.0.elements.is_empty() {
            None
        } else {
            Some(self.0.index(a))
        }
    }

    /// The real operation under test.
    pub(crate) fn is_allowed(&mut self, a: IpAddr, t: Instant, cutoff: Duration) -> bool {
        self.0.is_allowed(a, t, cutoff)
    }

    pub(crate) fn occupants(&self) -> Vec<Option<(IpAddr, Instant)>> {
        self.0.elements.clone()
    }
}

/// Slot of `a` in the rate-limit cache of a live server (`None`: cache size 0).
pub(crate) fn server_slot<C>(s: &Server<C>, a: &IpAddr) -> Option<usize> {
    if s.client_cache.elements.is_empty() {
        None
    } else {
        Some(s.client_cache.index(a))
    }
}

pub(crate) fn server_cache_size<C>(s: &Server<C>) -> usize {
    s.client_cache.elements.len()
}
