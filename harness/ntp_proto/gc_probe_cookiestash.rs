//! Group gc probe into `crate::cookiestash` (read-only views of the private ring buffer).
use super::super::CookieStash;

/// The cookies currently held, oldest first (what successive `get()` calls would yield).
pub(crate) fn fifo(s: &CookieStash) -> Vec<Vec<u8>> {
    let n = s.cookies.len();
    (0..s.valid)
        .map(|i| s.cookies[(s.read + i) % n].clone())
        .collect()
}

/// Raw ring cursor `(read, valid)`.
pub(crate) fn ring(s: &CookieStash) -> (usize, usize) {
    (s.read, s.valid)
}

/// Lengths of the slots that are NOT valid (a consumed cookie must not linger there).
pub(crate) fn dead_slot_bytes(s: &CookieStash) -> usize {
    let n = s.cookies.len();
    (s.valid..n)
        .map(|i| s.cookies[(s.read + i) % n].len())
        .sum()
}
