//! C25 — tampered NTS packets are never accepted as authentic.
//!
//! Positional sweep (engine E-IN) over hand-assembled, valid NTS datagrams (grammar and
//! layout bookkeeping of `c23.rs`): requests (decoded by the server with its cookie key
//! set) and responses (decoded by the client with its s2c key), NTPv4 and NTPv5, both AEAD
//! algorithms, authenticator plain / with extra in-field tail bytes / with a 13-byte nonce
//! (3 nonce padding bytes), two plaintexts each, 0..2 fields (or a raw MAC) after the
//! authenticator.
//!
//! For each base: EVERY single-bit flip of every byte, plus byte substitutions
//! (quick: xor FF, 55, AA and := 00, FF, 04; thorough: all 255 other values of every byte = every
//! single-byte modification).
//!
//! Oracle (from the statement; the position class of the modified byte comes from the layout
//! the harness recorded while assembling the datagram, not from the decoder):
//! * header / field before the authenticator / nonce / ciphertext  ==> the decode result
//!   reports no authenticated field, no encrypted field and no cookie keys;
//! * authenticator type+length words, nonce padding, bytes after the ciphertext inside the
//!   field, fields or MAC after the authenticator ==> the (authenticated, encrypted) lists
//!   are identical to the base's or both empty; cookie keys, if reported, are the base's and
//!   only come together with the base's authenticated content.
//!   "Identical" is strict: BOTH lists must equal the base's. A result whose authenticated
//!   list equals the base's while the encrypted list lost (or gained) entries is *different
//!   content appearing authenticated* - the AEAD tag covers (AAD, plaintext) as one unit, so
//!   "these fields are authentic and came with no encrypted fields" is a message the sender
//!   never made (e.g. a response stripped of its fresh cookies) -> class
//!   `C25:different-content-authenticated`.
//! * both tiers also edit every 16-bit length word of every extension field as a whole word
//!   (0, 1, 4, +-4, 0xFFFF); the class is that of the word's bytes (authenticator words: weak).
//! "Decode result" covers both `Ok((packet, cookie))` and the packet carried inside
//! `Err(DecryptError(packet))`.
use std::collections::HashSet;

use super::c23::{self, Alg, Built, Dir, Env, Field, KeyCtx, Region};
use super::common::{self, Ctx};
use crate::packet::PacketParsingError;
use crate::packet::verif_probe::gh::{View, view};

#[derive(Clone, Copy, PartialEq, Eq, Debug)]
enum Role {
    /// client -> server, c2s key, decoded with the server key set (cookie in the packet)
    Request,
    /// server -> client, s2c key, decoded with the client's cipher
    Response,
}

struct Base {
    desc: String,
    role: Role,
    alg: Alg,
    built: Built,
    /// number of fields placed before the authenticator / inside the plaintext
    n_pre: usize,
    n_enc: usize,
}

fn ctx_name(role: Role, alg: Alg) -> String {
    match role {
        Role::Request => "server-keyset".to_string(),
        Role::Response => format!("client-s2c{}", alg.tag()),
    }
}

fn key_ctx<'a>(env: &'a Env, role: Role, alg: Alg) -> KeyCtx<'a> {
    match role {
        Role::Request => KeyCtx::Server(&env.keyset),
        Role::Response => KeyCtx::Client(env.cipher(alg, Dir::S2C)),
    }
}

fn bases(env: &Env) -> Vec<Base> {
    let mut out = Vec::new();
    let uid = c23::ef("uid32", c23::T_UID, &c23::filler(32, 0x41));
    let v4h = [
        c23::hdr_v34(
            4,
            0,
            3,
            0,
            6,
            0xE8,
            0,
            0,
            [0; 4],
            [0, 0, 0, 0x0123_4567_89AB_CDEF],
        ),
        c23::hdr_v34(
            4,
            0,
            4,
            2,
            6,
            0xE8,
            0x0000_0100,
            0x0000_0200,
            [10, 0, 0, 1],
            [1, 0x0123_4567_89AB_CDEF, 3, 4],
        ),
    ];
    let v5h = [
        c23::hdr_v5(
            0,
            3,
            0,
            6,
            0,
            0,
            0,
            0,
            0,
            [0, 0],
            0,
            0x0123_4567_89AB_CDEF,
            0,
            0,
        ),
        c23::hdr_v5(
            0,
            4,
            2,
            6,
            0xE8,
            0x100,
            0x200,
            0,
            0,
            [0, 1],
            0x1111_2222_3333_4444,
            0x0123_4567_89AB_CDEF,
            3,
            4,
        ),
    ];
    for role in [Role::Request, Role::Response] {
        for v5 in [false, true] {
            for alg in [Alg::A256, Alg::A512] {
                let dir = if role == Role::Request {
                    Dir::C2S
                } else {
                    Dir::S2C
                };
                let ck = c23::ef("ck", c23::T_COOKIE, &env.cookies[alg.idx()]);
                // fields before the authenticator
                let mut pre: Vec<Field> = vec![uid.clone()];
                if role == Role::Request {
                    pre.push(ck.clone());
                    pre.push(c23::ef(
                        "ph",
                        c23::T_PLACEHOLDER,
                        &vec![0u8; env.cookies[alg.idx()].len()],
                    ));
                }
                if v5 {
                    pre.push(c23::draft_field());
                }
                // plaintexts
                let plaintexts: Vec<(&str, Vec<Field>)> = match role {
                    Role::Request => vec![
                        ("pt-empty", vec![]),
                        (
                            "pt-uid8",
                            vec![c23::ef("u", c23::T_UID, &c23::filler(8, 0x31))],
                        ),
                    ],
                    Role::Response => vec![
                        ("pt-ck", vec![ck.clone()]),
                        ("pt-2ck", vec![ck.clone(), ck.clone()]),
                    ],
                };
                // trailing material
                let posts: Vec<(&str, Vec<Field>, Vec<u8>)> = if v5 {
                    vec![
                        ("post0", vec![], vec![]),
                        (
                            "post1",
                            vec![c23::ef("rs7", c23::T_REFID_RESP, &[0x61, 0x62, 0x63])],
                            vec![],
                        ),
                        (
                            "post2",
                            vec![
                                c23::ef("uffff-7", 0xFFFF, &[1, 2, 3]),
                                c23::ef("uid32b", c23::T_UID, &c23::filler(32, 0x91)),
                            ],
                            vec![],
                        ),
                    ]
                } else {
                    vec![
                        ("post0", vec![], vec![]),
                        (
                            "post1",
                            vec![c23::ef("uid32b", c23::T_UID, &c23::filler(32, 0x91))],
                            vec![],
                        ),
                        (
                            "post2",
                            vec![
                                c23::ef("u28", 0x0002, &c23::filler(24, 0x75)),
                                c23::ef("uid32b", c23::T_UID, &c23::filler(32, 0x91)),
                            ],
                            vec![],
                        ),
                        (
                            "post-mac20",
                            vec![],
                            [&[0, 0, 0, 1][..], &c23::filler(16, 0xA1)].concat(),
                        ),
                    ]
                };
                for (pt_name, pt_fields) in plaintexts.iter() {
                    let pt = c23::encode_raw(pt_fields);
                    let auths: Vec<(&str, Field)> = vec![
                        ("auth", c23::auth_crate("au", alg, dir, pt.clone(), vec![])),
                        (
                            "auth-tail8",
                            c23::auth_crate(
                                "au",
                                alg,
                                dir,
                                pt.clone(),
                                vec![0xA0, 0xA1, 0xA2, 0xA3, 0, 0, 0, 0],
                            ),
                        ),
                        (
                            "auth-nonce13",
                            c23::auth_ext(
                                "au",
                                alg,
                                dir,
                                pt.clone(),
                                Some(c23::filler(13, 0x21)),
                                0x5A,
                                vec![],
                            ),
                        ),
                    ];
                    for (a_name, a_field) in auths.iter() {
                        for (post_name, post_fields, tail) in posts.iter() {
                            let mut fields: Vec<&Field> = pre.iter().collect();
                            fields.push(a_field);
                            fields.extend(post_fields.iter());
                            let header = match (v5, role) {
                                (false, Role::Request) => &v4h[0],
                                (false, Role::Response) => &v4h[1],
                                (true, Role::Request) => &v5h[0],
                                (true, Role::Response) => &v5h[1],
                            };
                            let built = c23::assemble(env, header, &fields, tail);
                            out.push(Base {
                                desc: format!(
                                    "{}/{}/aead{}/{}/{}/{}",
                                    if v5 { "v5" } else { "v4" },
                                    if role == Role::Request {
                                        "request"
                                    } else {
                                        "response"
                                    },
                                    alg.tag(),
                                    a_name,
                                    pt_name,
                                    post_name
                                ),
                                role,
                                alg,
                                built,
                                n_pre: pre.len(),
                                n_enc: pt_fields.len(),
                            });
                        }
                    }
                }
            }
        }
    }
    out
}

/// What the decoder reported: field lists + cookie keys (s2c, c2s), if any.
#[derive(Clone, Debug, PartialEq, Eq)]
struct Obs {
    kind: &'static str,
    view: Option<View>,
    cookie_keys: Option<(Vec<u8>, Vec<u8>)>,
}

impl Obs {
    fn auth_enc(&self) -> (usize, usize) {
        self.view
            .as_ref()
            .map(|v| (v.authenticated.len(), v.encrypted.len()))
            .unwrap_or((0, 0))
    }
    fn nothing_authentic(&self) -> bool {
        self.auth_enc() == (0, 0) && self.cookie_keys.is_none()
    }
    fn same_content(&self, base: &Obs) -> bool {
        match (&self.view, &base.view) {
            (Some(a), Some(b)) => a.authenticated == b.authenticated && a.encrypted == b.encrypted,
            _ => false,
        }
    }
}

fn observe(k: &KeyCtx<'_>, bytes: &[u8]) -> Result<Obs, String> {
    common::catch(|| match k.decode(bytes) {
        Ok((p, cookie)) => Obs {
            kind: "ok",
            view: Some(view(&p)),
            cookie_keys: cookie.map(|c| (c.s2c.key_bytes().to_vec(), c.c2s.key_bytes().to_vec())),
        },
        Err(PacketParsingError::DecryptError(p)) => Obs {
            kind: "decrypt-error-with-packet",
            view: Some(view(&p)),
            cookie_keys: None,
        },
        Err(_) => Obs {
            kind: "parse-error",
            view: None,
            cookie_keys: None,
        },
    })
}

fn strong(r: Region) -> bool {
    matches!(
        r,
        Region::Header | Region::PreField | Region::Nonce | Region::Ciphertext
    )
}

fn region_name(r: Region) -> &'static str {
    match r {
        Region::Header => "header",
        Region::PreField => "prefield",
        Region::AuthLengths => "auth-lengths",
        Region::Nonce => "nonce",
        Region::NoncePad => "nonce-padding",
        Region::Ciphertext => "ciphertext",
        Region::AuthTail => "auth-tail",
        Region::PostField => "trailing-field",
        Region::Tail => "trailing-mac",
    }
}

fn region_of_name(s: &str) -> Option<Region> {
    [
        Region::Header,
        Region::PreField,
        Region::AuthLengths,
        Region::Nonce,
        Region::NoncePad,
        Region::Ciphertext,
        Region::AuthTail,
        Region::PostField,
        Region::Tail,
    ]
    .into_iter()
    .find(|r| region_name(*r) == s)
}

/// The verdict for one mutant. `Ok(class of outcome)` or `Err((violation class, text))`.
fn judge(
    region: Region,
    base: &Obs,
    got: &Result<Obs, String>,
) -> Result<&'static str, (String, String)> {
    let got = match got {
        Ok(o) => o,
        // a panic is C23's finding; here it reports nothing as authentic
        Err(_) => return Ok("panic"),
    };
    if strong(region) {
        if got.nothing_authentic() {
            Ok(if got.view.is_some() {
                "rejected-with-packet"
            } else {
                "rejected-parse-error"
            })
        } else {
            Err((
                format!("C25:accepted-after-{}-change", region_name(region)),
                format!(
                    "a modified {} byte still yields {} authenticated + {} encrypted fields, cookie keys: {} ({})",
                    region_name(region),
                    got.auth_enc().0,
                    got.auth_enc().1,
                    got.cookie_keys.is_some(),
                    got.kind
                ),
            ))
        }
    } else if got.auth_enc() == (0, 0) {
        if got.cookie_keys.is_some() {
            Err((
                "C25:cookie-keys-without-authentication".into(),
                format!(
                    "cookie keys reported although no field is authenticated ({})",
                    got.kind
                ),
            ))
        } else {
            Ok(if got.view.is_some() {
                "empty-with-packet"
            } else {
                "empty-parse-error"
            })
        }
    } else if got.same_content(base) {
        match (&got.cookie_keys, &base.cookie_keys) {
            (Some(a), Some(b)) if a != b => Err((
                "C25:different-cookie-keys".into(),
                "cookie keys differ from the base packet's".into(),
            )),
            (Some(_), None) => Err((
                "C25:different-cookie-keys".into(),
                "cookie keys reported that the base packet does not yield".into(),
            )),
            _ => Ok("identical"),
        }
    } else {
        Err((
            "C25:different-content-authenticated".into(),
            format!(
                "a modified {} byte makes different content appear authenticated/encrypted: base {:?} / {:?}, now {:?} / {:?}",
                region_name(region),
                base.view.as_ref().map(|v| &v.authenticated),
                base.view.as_ref().map(|v| &v.encrypted),
                got.view.as_ref().map(|v| &v.authenticated),
                got.view.as_ref().map(|v| &v.encrypted),
            ),
        ))
    }
}

/// Independent expectation about the unmodified base: it authenticates, with exactly the
/// fields the harness put before the authenticator / into the plaintext, and (server) the
/// session keys the harness put into the cookie.
fn check_base(env: &Env, b: &Base, obs: &Result<Obs, String>) -> Result<(), String> {
    let o = obs
        .as_ref()
        .map_err(|e| format!("decoder panicked on the base: {e}"))?;
    if o.kind != "ok" {
        return Err(format!("base packet is not accepted: {}", o.kind));
    }
    if o.auth_enc() != (b.n_pre, b.n_enc) {
        return Err(format!(
            "base packet yields {:?} authenticated/encrypted fields, built with {:?}",
            o.auth_enc(),
            (b.n_pre, b.n_enc)
        ));
    }
    match (b.role, &o.cookie_keys) {
        (Role::Request, Some((s2c, c2s))) => {
            if *s2c != c23::key_bytes(b.alg, Dir::S2C) || *c2s != c23::key_bytes(b.alg, Dir::C2S) {
                return Err(
                    "cookie keys of the base differ from the keys put into the cookie".into(),
                );
            }
        }
        (Role::Request, None) => {
            return Err("server context did not recover cookie keys from the base".into());
        }
        (Role::Response, Some(_)) => return Err("client context reported cookie keys".into()),
        (Role::Response, None) => {}
    }
    let _ = env;
    Ok(())
}

fn trace_of(b: &Base, region: Region, mutant: &[u8]) -> String {
    format!(
        "{};{};{};{}",
        ctx_name(b.role, b.alg),
        region_name(region),
        common::hex(&b.built.bytes),
        common::hex(mutant)
    )
}

fn replay(ctx: &Ctx, env: &Env, trace: &str) -> String {
    // "<context>;<region>;<base hex>;<mutant hex>"
    let p: Vec<&str> = trace.split(';').collect();
    if p.len() != 4 {
        return "unparsable trace".into();
    }
    let k = match p[0] {
        "server-keyset" => KeyCtx::Server(&env.keyset),
        "client-s2c512" => KeyCtx::Client(env.cipher(Alg::A512, Dir::S2C)),
        _ => KeyCtx::Client(env.cipher(Alg::A256, Dir::S2C)),
    };
    let (Some(region), Some(base), Some(mutant)) = (
        region_of_name(p[1]),
        common::unhex(p[2]),
        common::unhex(p[3]),
    ) else {
        return "unparsable trace".into();
    };
    let bo = observe(&k, &base);
    let mo = observe(&k, &mutant);
    let Ok(bo_ok) = &bo else {
        return format!("base panics: {bo:?}");
    };
    let verdict = judge(region, bo_ok, &mo);
    if let Err((class, what)) = &verdict {
        ctx.violation(class, what.clone(), trace);
    }
    let summary = |o: &Result<Obs, String>| match o {
        Ok(o) => format!(
            "{} auth/enc={:?} cookie_keys={}",
            o.kind,
            o.auth_enc(),
            o.cookie_keys.is_some()
        ),
        Err(e) => format!("PANIC {e}"),
    };
    format!(
        "region={} base=[{}] mutant=[{}] verdict={:?}",
        p[1],
        summary(&bo),
        summary(&mo),
        verdict.map_err(|e| e.0)
    )
}

#[test]
fn check() {
    let ctx = Ctx::new("C25");
    let env = Env::new();
    if let Some(t) = common::replay_trace() {
        let a = replay(&ctx, &env, &t);
        let b = replay(&ctx, &env, &t);
        common::report_replay("C25", &a, &b, ctx.violation_count() > 0);
        return;
    }
    let quick = ctx.quick();
    let all = bases(&env);
    ctx.rule(
        "bases = {request decoded with the server KeySet, response decoded with the client's s2c cipher} x {NTPv4, NTPv5} x \
         {AES-SIV-CMAC-256, -512} x authenticator {canonical, +8 in-field tail bytes, 13-byte nonce with 3 padding bytes} x 2 plaintexts \
         (request: empty / one UID field; response: 1 / 2 cookies) x trailer {none, 1 field, 2 fields, v4: 20-byte MAC}; request = UID + cookie + placeholder \
         (+ v5 draft id) before the authenticator, response = UID (+ draft id). Mutants of each base: every single-bit flip of every \
         byte + byte substitutions (quick: xor FF / 55 / AA and := 00 / FF / 04; thorough: all 255 other values of every byte) + in both \
         tiers every 16-bit length word inside an extension field (field length, nonce length, ciphertext length, cookie-internal \
         ciphertext length) := 0, 1, 4, original-4, original+4, 0xFFFF as a whole-word edit. Each mutant is judged by \
         the position class of the touched byte. distinct & non-trivial = distinct (base, byte offset, verdict class) triples.",
    );
    ctx.assume("position classes (header / pre-authenticator field / authenticator words / nonce / nonce padding / ciphertext / in-field tail / trailing field / MAC) are taken from the layout recorded by the harness's own assembler");
    ctx.assume("the authenticator's type and length words count as 'the authenticator's own length' bytes (weak class); the statement names only nonce and ciphertext of the authenticator as strong");
    ctx.assume("canonical and tail8 authenticators are sealed with the crate's own Cipher::encrypt (random nonce; the enumeration and its counts do not depend on byte values), the 13-byte-nonce ones with the AES-SIV primitive the crate wraps (crate's [aad, nonce] convention, cross-checked at start-up); every base must authenticate through the real decoder with exactly the fields the harness built in");
    for f in &env.self_test {
        ctx.violation("C25:cipher-convention-mismatch", format!("start-up cross-check of the crate's Cipher/KeySet against the AES-SIV [aad, nonce] convention failed: {f}"), "self-test");
    }
    ctx.set("bases", all.len() as u64);

    // the unmodified bases first (sequential; also prints their layout as samples)
    let mut base_obs: Vec<Option<Obs>> = Vec::new();
    for b in &all {
        let k = key_ctx(&env, b.role, b.alg);
        let o = observe(&k, &b.built.bytes);
        ctx.inc("evaluations");
        ctx.inc("transitions");
        match check_base(&env, b, &o) {
            Ok(()) => base_obs.push(o.ok()),
            Err(e) => {
                ctx.violation(
                    "C25:base-not-authentic-as-built",
                    format!("{e} [{}]", b.desc),
                    trace_of(b, Region::Header, &b.built.bytes),
                );
                // still sweep it if the decoder reports anything as authentic at all
                base_obs.push(o.ok().filter(|o| !o.nothing_authentic()));
            }
        }
        let mut spans: Vec<(Region, usize)> = Vec::new();
        for r in &b.built.region {
            match spans.last_mut() {
                Some((lr, n)) if lr == r => *n += 1,
                _ => spans.push((*r, 1)),
            }
        }
        ctx.sample(format!(
            "{} ({} bytes): {}",
            b.desc,
            b.built.bytes.len(),
            spans
                .iter()
                .map(|(r, n)| format!("{}x{}", region_name(*r), n))
                .collect::<Vec<_>>()
                .join(" ")
        ));
    }

    // work items = (base, offset)
    let mut items: Vec<(usize, usize)> = Vec::new();
    for (bi, b) in all.iter().enumerate() {
        if base_obs[bi].is_some() {
            for off in 0..b.built.bytes.len() {
                items.push((bi, off));
            }
        }
    }
    ctx.set("byte_positions", items.len() as u64);
    struct Local<'a> {
        ctx: &'a Ctx,
        counts: std::collections::BTreeMap<String, u64>,
        evals: u64,
        distinct: HashSet<u64>,
    }
    impl Drop for Local<'_> {
        fn drop(&mut self) {
            for (k, v) in &self.counts {
                self.ctx.add(k, *v);
            }
            self.ctx.add("evaluations", self.evals);
            self.ctx.add("transitions", self.evals);
            self.ctx.distinct_many(self.distinct.drain());
        }
    }
    let found = c23::Findings::new();
    common::par_for_with(
        items.len() as u64,
        16,
        || Local {
            ctx: &ctx,
            counts: Default::default(),
            evals: 0,
            distinct: HashSet::new(),
        },
        |st, i| {
            let (bi, off) = items[i as usize];
            let b = &all[bi];
            let base = base_obs[bi].as_ref().expect("base");
            let k = key_ctx(&env, b.role, b.alg);
            let region = b.built.region[off];
            let orig = b.built.bytes[off];
            let mut work = b.built.bytes.clone();
            let mut values: Vec<u8> = Vec::with_capacity(255);
            if quick {
                // the 8 single-bit flips + 3 multi-bit masks (never a no-op) ...
                for mask in [
                    0x01u8, 0x02, 0x04, 0x08, 0x10, 0x20, 0x40, 0x80, 0xFF, 0x55, 0xAA,
                ] {
                    values.push(orig ^ mask);
                }
                // ... + absolute substitutions (a length byte becomes 0 / maximal, a type byte 0x04)
                // (not de-duplicated against the masks: the number of evaluations must not
                // depend on byte values, nonce and ciphertext bytes are random per run)
                values.extend([0x00u8, 0xFF, 0x04]);
            } else {
                values.extend((0..=255u8).filter(|v| *v != orig));
            }
            for v in values {
                work[off] = v;
                let got = observe(&k, &work);
                st.evals += 1;
                if v == orig {
                    // absolute substitution that leaves the byte as it is: still decoded (keeps
                    // the number of evaluations independent of byte values), must equal the base
                    if got.as_ref().ok() == Some(base) {
                        *st.counts
                            .entry(format!("{}.noop-same-as-base", region_name(region)))
                            .or_insert(0) += 1;
                    } else {
                        found.report(
                            "C25:unmodified-packet-decodes-differently",
                            format!("{} decoded twice gives different results", b.desc),
                            trace_of(b, region, &work),
                        );
                    }
                    continue;
                }
                match judge(region, base, &got) {
                    Ok(class) => {
                        *st.counts
                            .entry(format!("{}.{}", region_name(region), class))
                            .or_insert(0) += 1;
                        st.distinct.insert(common::hash_of(&(bi, off, class)));
                    }
                    Err((class, what)) => {
                        found.report(
                            &class,
                            format!("{what} [{} offset {off}: {orig:#04x} -> {v:#04x}]", b.desc),
                            trace_of(b, region, &work),
                        );
                        st.distinct.insert(common::hash_of(&(bi, off, &class)));
                    }
                }
            }
        },
    );

    // whole-word edits of every 16-bit length word inside extension fields (field length, nonce
    // length, ciphertext length, ciphertext length inside the server cookie): both tiers
    let mut words: Vec<(usize, usize)> = Vec::new();
    for (bi, b) in all.iter().enumerate() {
        if base_obs[bi].is_some() {
            for &o in &b.built.len_offsets {
                if o + 1 < b.built.bytes.len() {
                    words.push((bi, o));
                }
            }
        }
    }
    ctx.set("length_words", words.len() as u64);
    common::par_for_with(
        words.len() as u64,
        4,
        || Local {
            ctx: &ctx,
            counts: Default::default(),
            evals: 0,
            distinct: HashSet::new(),
        },
        |st, i| {
            let (bi, off) = words[i as usize];
            let b = &all[bi];
            let base = base_obs[bi].as_ref().expect("base");
            let k = key_ctx(&env, b.role, b.alg);
            let region = b.built.region[off];
            if b.built.region[off + 1] != region {
                found.report(
                    "C25:harness-layout",
                    format!(
                        "length word at {off} of {} straddles two position classes",
                        b.desc
                    ),
                    "layout".into(),
                );
                return;
            }
            let orig = u16::from_be_bytes([b.built.bytes[off], b.built.bytes[off + 1]]);
            let mut work = b.built.bytes.clone();
            let mut values: Vec<u16> = Vec::new();
            for v in [
                0u16,
                1,
                4,
                orig.wrapping_sub(4),
                orig.wrapping_add(4),
                0xFFFF,
            ] {
                if v != orig && !values.contains(&v) {
                    values.push(v);
                }
            }
            for v in values {
                work[off..off + 2].copy_from_slice(&v.to_be_bytes());
                let got = observe(&k, &work);
                st.evals += 1;
                match judge(region, base, &got) {
                    Ok(class) => {
                        *st.counts
                            .entry(format!("word.{}.{}", region_name(region), class))
                            .or_insert(0) += 1;
                        st.distinct
                            .insert(common::hash_of(&(bi, off, "word", class)));
                    }
                    Err((class, what)) => {
                        found.report(
                            &class,
                            format!(
                                "{what} [{} length word at offset {off}: {orig:#06x} -> {v:#06x}]",
                                b.desc
                            ),
                            trace_of(b, region, &work),
                        );
                        st.distinct
                            .insert(common::hash_of(&(bi, off, "word", &class)));
                    }
                }
            }
        },
    );
    found.flush(&ctx);
    ctx.set("states", all.len() as u64);
    ctx.exhaustive(true);
    ctx.finish();
}
