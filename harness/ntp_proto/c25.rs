//! C25: not implemented yet.
