//! C19 — NTS server answers are authenticated and carry valid fresh cookies.
//!
//! Engine E-IN over NTS request layouts + E-SEQ over key rotation histories, both against
//! the real `Server::handle` / `KeySetProvider::rotate`.
//!
//! (A) layouts: version {4,5} x AEAD {256,512} x unique identifier {none, one, duplicated} x
//!     k unknown fields in front {0,7,8 (+1,6 thorough)} x cookies {none, current, previous,
//!     expired, foreign key, two current, current+expired} x placeholders (authenticated part,
//!     encrypted part) with total <= 9 (quick: 11 representative pairs) x placeholder length
//!     {cookie-4, cookie, cookie+4} x authenticator {valid, valid with 8-byte nonce, bad tag,
//!     wrong key} x extra encrypted fields {none, identifier+unknown}; under an open and a
//!     denying configuration, with a rotated and a fresh key set.
//! (B) rotation histories: provider history h in {0,1,2}; every event word of length <= 6
//!     (thorough 8) over {rotate, poll, poll with 2 placeholders}; the client model keeps the
//!     cookies it was given (oldest first, like a real client) and re-keys when it has none.
//!     A cookie minted r rotations ago is accepted iff r <= h ("history old keys are kept").
//!
//! (C) structurally degenerate authenticators behind a valid cookie (see `degenerate()`): the
//!     hand-framed authenticator family of `c16::Fld::RawAuth` and genuine seals that are cut,
//!     computed over other associated data, or made with a foreign key.
//!
//! Authenticity is a *harness-side* predicate (`c16::Built::auth`): a request is authentic iff
//! the harness itself sealed its (single) authenticator under the cookie's c2s key over exactly
//! the bytes that precede the field and did not touch it afterwards, and exactly one cookie
//! accepted by the server's key set precedes it. In NTPv4 an authenticator of <= 24 bytes at the
//! very end of the datagram is a legacy MAC by RFC 7822 framing: such a request is plain.
//!
//! Oracle (from the statement), evaluated with the independent walker of c16.rs:
//!   * request whose authentication fails  => the answer is never a time answer; it is an
//!     NTS-NAK, or a DENY if (and only if) the policy denies the client, or nothing; and it
//!     never carries cookies (also checked for plain requests);
//!   * time answer to an authenticated request => exactly one authenticator that verifies
//!     under the cookie's s2c key with everything before it as associated data;
//!   * fresh cookies (cookie fields anywhere in the answer): count <= number of cookie +
//!     placeholder fields of the request and <= 8; an injective assignment cookie -> request
//!     field with body(cookie) <= body(field) exists; every cookie decodes under the
//!     server's *current* key set to the session's (algorithm, s2c, c2s); every cookie is
//!     fresh (differs from the request's cookie and from its siblings).
use std::collections::VecDeque;

use super::c16::{
    AField, Answer, Au, AuthState, BIG_BUF, Built, Cfg, Ck, Findings, Fld, Handled, KeyEnv, Kind,
    Local, MockClock, Out, Req, Session, Sync, T_AUTH, T_COOKIE, build, client_ip, key_env,
    kind_key, make_server, open_nts, run_handle, walk,
};
use super::common::{self, Ctx};
use crate::keyset::{KeySet, KeySetProvider};
use crate::{Cipher, Server};

fn bump(loc: &mut Option<&mut Local>, k: &'static str) {
    if let Some(l) = loc.as_deref_mut() {
        l.inc(k);
    }
}

/// Judge one answer. Returns (observation, fresh cookies of an authenticated time answer).
fn judge_answer(
    findings: &Findings,
    loc: &mut Option<&mut Local>,
    expected: AuthState,
    policy_denies: bool,
    server_keys: &KeySet,
    req: &Req,
    b: &Built,
    handled: &Handled,
    trace: &dyn Fn() -> String,
) -> (String, Vec<Vec<u8>>) {
    let size = b.bytes.len();
    let raw = match &handled.out {
        Out::Ignore => {
            bump(loc, "ignored");
            match expected {
                AuthState::Valid => bump(loc, "valid_ignored"),
                AuthState::Invalid => bump(loc, "invalid_ignored"),
                _ => {}
            }
            return ("ignored".into(), vec![]);
        }
        Out::Respond(a) => a,
    };
    let ans = match walk(raw) {
        Ok(a) => a,
        Err(e) => {
            findings.report(
                "C19:answer-malformed",
                size,
                || format!("{e}: {}", common::hex(raw)),
                trace,
            );
            return (format!("malformed: {e}"), vec![]);
        }
    };
    let kind = ans.kind();
    bump(loc, kind_key(kind));
    let sess = req.session();
    let ctxt = || {
        format!(
            "request {} = {}; answer = {}",
            req.code(),
            common::hex(&b.bytes),
            common::hex(raw)
        )
    };
    let mut fresh: Vec<Vec<u8>> = vec![];
    let mut classes: Vec<&'static str> = vec![];
    if matches!(expected, AuthState::Invalid | AuthState::NoAuth) {
        // whatever the answer is, it must not hand out cookies
        let outer = ans.fields.iter().any(|f| f.ty == T_COOKIE);
        let inner = open_nts(&ans, sess.s2c().as_ref())
            .map(|o| o.inner.iter().any(|f| f.ty == T_COOKIE))
            .unwrap_or(false);
        if outer || inner {
            classes.push("C19:cookies-without-authentication");
            findings.report(
                "C19:cookies-without-authentication",
                size,
                || format!("the answer to a request that is not authentic ({expected:?}) carries fresh cookies; {}", ctxt()),
                trace,
            );
        }
    }
    match expected {
        AuthState::Invalid => {
            match kind {
                Kind::Time => {
                    classes.push("C19:time-without-authentication");
                    findings.report(
                        "C19:time-without-authentication",
                        size,
                        || format!("a request whose NTS authentication fails was answered with time; {}", ctxt()),
                        trace,
                    );
                }
                Kind::Nak => {
                    bump(loc, "invalid_nak");
                    if policy_denies {
                        // the statement allows NAK or DENY here; record which
                        bump(loc, "invalid_nak_although_denied");
                    }
                }
                Kind::Deny => {
                    bump(loc, "invalid_deny");
                    if !policy_denies {
                        classes.push("C19:deny-without-policy");
                        findings.report(
                            "C19:deny-without-policy",
                            size,
                            || format!("authentication failure answered with DENY although the policy allows the client; {}", ctxt()),
                            trace,
                        );
                    }
                }
                other => {
                    classes.push("C19:unexpected-answer-kind");
                    findings.report(
                        "C19:unexpected-answer-kind",
                        size,
                        || format!("authentication failure answered with {other:?}; {}", ctxt()),
                        trace,
                    );
                }
            }
        }
        AuthState::Valid | AuthState::Ambiguous => {
            if kind == Kind::Time {
                if expected == AuthState::Valid {
                    bump(loc, "valid_time");
                }
                match open_nts(&ans, sess.s2c().as_ref()) {
                    Err(e) => {
                        classes.push("C19:answer-not-authenticated");
                        findings.report(
                            "C19:answer-not-authenticated",
                            size,
                            || format!("time answer to an authenticated request cannot be authenticated with the s2c key ({e}); {}", ctxt()),
                            trace,
                        );
                    }
                    Ok(o) => {
                        let mut cookies: Vec<Vec<u8>> = o
                            .inner
                            .iter()
                            .filter(|f| f.ty == T_COOKIE)
                            .map(|f| f.body.clone())
                            .collect();
                        let clear: Vec<Vec<u8>> = ans
                            .fields
                            .iter()
                            .filter(|f| f.ty == T_COOKIE)
                            .map(|f| f.body.clone())
                            .collect();
                        if !clear.is_empty() {
                            bump(loc, "cookies_in_clear");
                        }
                        cookies.extend(clear);
                        if let Some(l) = loc.as_deref_mut() {
                            l.max("max_fresh_cookies", cookies.len() as u64);
                            l.add("fresh_cookies", cookies.len() as u64);
                            if cookies.len() == 8 {
                                l.inc("answers_with_8_cookies");
                            }
                            if cookies.is_empty() {
                                l.inc("authenticated_answers_without_cookie");
                            }
                        }
                        let n_req = b.cookie_like.len();
                        if cookies.len() > n_req || cookies.len() > 8 {
                            classes.push("C19:too-many-cookies");
                            findings.report(
                                "C19:too-many-cookies",
                                size,
                                || format!("{} fresh cookies for {} cookie/placeholder fields (limit 8); {}", cookies.len(), n_req, ctxt()),
                                trace,
                            );
                        }
                        // injective assignment cookie -> request field with size(cookie) <= size(field)
                        let mut have: Vec<usize> = b.cookie_like.clone();
                        have.sort_unstable_by(|a, b| b.cmp(a));
                        let mut want: Vec<usize> = cookies.iter().map(|c| c.len()).collect();
                        want.sort_unstable_by(|a, b| b.cmp(a));
                        if want.iter().zip(have.iter()).any(|(w, h)| w > h) {
                            classes.push("C19:cookie-larger-than-field");
                            findings.report(
                                "C19:cookie-larger-than-field",
                                size,
                                || format!("fresh cookie sizes {want:?} do not fit the request's cookie/placeholder bodies {have:?}; {}", ctxt()),
                                trace,
                            );
                        }
                        for (i, c) in cookies.iter().enumerate() {
                            match server_keys.decode_cookie(c) {
                                Err(_) => {
                                    classes.push("C19:cookie-invalid");
                                    findings.report(
                                        "C19:cookie-invalid",
                                        size,
                                        || format!("fresh cookie #{i} ({} bytes) does not decode under the server's current key set; {}", c.len(), ctxt()),
                                        trace,
                                    );
                                }
                                Ok(d) => {
                                    if d.algorithm != sess.algorithm()
                                        || d.s2c.key_bytes() != &sess.s2c_key()[..]
                                        || d.c2s.key_bytes() != &sess.c2s_key()[..]
                                    {
                                        classes.push("C19:cookie-wrong-keys");
                                        findings.report(
                                            "C19:cookie-wrong-keys",
                                            size,
                                            || format!("fresh cookie #{i} decodes to other session keys than the request's cookie; {}", ctxt()),
                                            trace,
                                        );
                                    }
                                }
                            }
                            let stale = b.cookies.iter().any(|r| c.starts_with(r))
                                || cookies.iter().enumerate().any(|(j, o)| j != i && o == c);
                            if stale {
                                classes.push("C19:cookie-not-fresh");
                                findings.report(
                                    "C19:cookie-not-fresh",
                                    size,
                                    || format!("fresh cookie #{i} repeats the request's cookie or a sibling; {}", ctxt()),
                                    trace,
                                );
                            }
                        }
                        fresh = cookies;
                    }
                }
            } else if expected == AuthState::Valid {
                match kind {
                    Kind::Deny if policy_denies => bump(loc, "valid_denied"),
                    other => {
                        classes.push("C19:valid-request-rejected");
                        findings.report(
                            "C19:valid-request-rejected",
                            size,
                            || {
                                format!(
                                    "correctly authenticated request answered with {other:?}; {}",
                                    ctxt()
                                )
                            },
                            trace,
                        );
                    }
                }
            }
        }
        AuthState::NoAuth => {
            bump(loc, "plain_requests_answered");
        }
    }
    (
        format!(
            "{kind:?} {} bytes fresh={} sizes={:?} classes={:?}",
            raw.len(),
            fresh.len(),
            fresh.iter().map(|c| c.len()).collect::<Vec<_>>(),
            classes
        ),
        fresh,
    )
}

// ---- (A) layouts -------------------------------------------------------------------------

#[derive(Clone, Debug)]
struct Layout {
    ver: u8,
    alg512: bool,
    uid: u8,
    lead: u8,
    cookies: Vec<Ck>,
    pa: u8,
    pe: u8,
    ph_delta: i16,
    au: Au,
    extra_enc: bool,
}

impl Layout {
    fn req(&self) -> Req {
        let mut f = vec![];
        for _ in 0..self.lead {
            // 16-byte unknown fields: the RFC 7822 minimum
            f.push(Fld::Unk(12));
        }
        for _ in 0..self.uid {
            f.push(Fld::Uid(32));
        }
        for c in &self.cookies {
            f.push(Fld::Cookie(*c, 0));
        }
        for _ in 0..self.pa {
            f.push(Fld::Ph(self.ph_delta));
        }
        if self.ver == 5 {
            f.push(Fld::Draft(true));
        }
        let mut enc = vec![];
        if self.extra_enc {
            enc.push(Fld::Uid(32));
            enc.push(Fld::Unk(24));
        }
        for _ in 0..self.pe {
            enc.push(Fld::Ph(self.ph_delta));
        }
        f.push(Fld::Auth(self.au, enc));
        let mut r = Req::plain(self.ver, f);
        r.alg512 = self.alg512;
        r
    }
}

fn layouts(thorough: bool) -> Vec<Layout> {
    let pairs: Vec<(u8, u8)> = if thorough {
        let mut v = vec![];
        for a in 0..=9u8 {
            for e in 0..=(9 - a) {
                v.push((a, e));
            }
        }
        v
    } else {
        vec![
            (0, 0),
            (1, 0),
            (0, 1),
            (3, 0),
            (2, 2),
            (7, 0),
            (0, 7),
            (8, 0),
            (9, 0),
            (0, 9),
            (4, 5),
        ]
    };
    let leads: &[u8] = if thorough {
        &[0, 1, 6, 7, 8]
    } else {
        &[0, 7, 8]
    };
    let cookie_sets: Vec<Vec<Ck>> = vec![
        vec![],
        vec![Ck::Cur],
        vec![Ck::Prev],
        vec![Ck::Expired],
        vec![Ck::Foreign],
        vec![Ck::Cur, Ck::Cur],
        vec![Ck::Cur, Ck::Expired],
    ];
    let mut out = vec![];
    for ver in [4u8, 5] {
        for alg512 in [false, true] {
            for uid in 0..3u8 {
                for &lead in leads {
                    for cookies in &cookie_sets {
                        for &(pa, pe) in &pairs {
                            for ph_delta in [-4i16, 0, 4] {
                                if pa + pe == 0 && ph_delta != 0 {
                                    continue;
                                }
                                for au in [Au::Ok, Au::N8, Au::BadTag, Au::WrongKey] {
                                    for extra_enc in [false, true] {
                                        out.push(Layout {
                                            ver,
                                            alg512,
                                            uid,
                                            lead,
                                            cookies: cookies.clone(),
                                            pa,
                                            pe,
                                            ph_delta,
                                            au,
                                            extra_enc,
                                        });
                                    }
                                }
                            }
                        }
                    }
                }
            }
        }
    }
    out
}

fn judge_layout(
    findings: &Findings,
    mut loc: Option<&mut Local>,
    cfg: Cfg,
    keys: &KeyEnv,
    server: &mut Server<MockClock>,
    req: &Req,
) -> String {
    let mut b = build(req, keys);
    if mac_like(req, &b) {
        // RFC 7822: in NTPv4 the last <= 24 bytes of a datagram are a legacy MAC, not an
        // extension field — such a request carries no NTS authenticator at all
        b.auth = AuthState::NoAuth;
        if let Some(l) = loc.as_deref_mut() {
            l.inc("requests_authenticator_is_legacy_mac");
        }
    }
    let trace = || {
        format!(
            "layout;{};k{};{}",
            cfg.code(),
            keys.rotated as u8,
            req.code()
        )
    };
    if let Some(l) = loc.as_deref_mut() {
        l.inc("evaluations");
        l.inc(match b.auth {
            AuthState::Valid => "requests_valid",
            AuthState::Invalid => "requests_invalid",
            AuthState::Ambiguous => "requests_ambiguous",
            AuthState::NoAuth => "requests_plain",
        });
    }
    if b.bytes.len() > super::c16::MAX_DATAGRAM {
        // the daemon could not receive this datagram, but `Server::handle` is a library
        // entry point without a size limit: the bound of eight cookies can only be
        // exceeded by such requests, so they are part of the space
        if let Some(l) = loc.as_deref_mut() {
            l.inc("requests_longer_than_1024");
        }
    }
    let handled = match run_handle(server, client_ip(0), &b.bytes, BIG_BUF) {
        Ok(h) => h,
        Err(p) => {
            findings.report(
                "C19:panic",
                b.bytes.len(),
                || format!("Server::handle panicked: {p}"),
                trace,
            );
            return format!("panic {p}");
        }
    };
    let (obs, _) = judge_answer(
        findings,
        &mut loc,
        b.auth,
        cfg.denies_client(),
        &keys.server,
        req,
        &b,
        &handled,
        &trace,
    );
    if obs != "ignored" {
        if let Some(l) = loc.as_deref_mut() {
            l.distinct(common::hash_of(&(cfg, keys.rotated, req)));
        }
    }
    format!("{:?} -> {obs}", b.auth)
}

/// NTPv4 only: the authenticator is the last thing in the datagram and at most 24 bytes long.
fn mac_like(req: &Req, b: &Built) -> bool {
    req.ver == 4
        && req.mac == 0
        && matches!(
            req.fields.last(),
            Some(Fld::Auth(..)) | Some(Fld::RawAuth(..))
        )
        && b.spans
            .last()
            .map(|s| s.ty == T_AUTH && s.wire <= 24)
            .unwrap_or(false)
}

// ---- (C) structurally degenerate authenticators ----------------------------------------------

/// Requests with a valid cookie whose authenticator was *not* sealed by the harness under the
/// c2s key over the preceding bytes: hand-framed authenticator fields (nonce length 0..=20 x
/// ciphertext length 0..=20 x body length consistent-4..=+3 [v4: -4,0,+4]) and genuine seals over
/// other associated data / cut to 0..15 bytes / of an empty plaintext under a foreign key;
/// each with {nothing, identifier, identifier+placeholder} in front of the cookie and
/// {nothing, unknown, unknown+identifier} after the authenticator.
fn degenerate(_thorough: bool) -> Vec<Req> {
    let mut out = vec![];
    let pres: [Vec<Fld>; 3] = [vec![], vec![Fld::Uid(32)], vec![Fld::Uid(32), Fld::Ph(0)]];
    let posts: [Vec<Fld>; 3] = [vec![], vec![Fld::Unk(24)], vec![Fld::Unk(24), Fld::Uid(32)]];
    let mut push =
        |ver: u8, alg512: bool, pre: &Vec<Fld>, auth: Fld, post: &Vec<Fld>, cookie_first: bool| {
            let mut f = vec![];
            if ver == 5 {
                f.push(Fld::Draft(true));
            }
            if cookie_first {
                f.push(Fld::Cookie(Ck::Cur, 0));
                f.extend(pre.iter().cloned());
            } else {
                f.extend(pre.iter().cloned());
                f.push(Fld::Cookie(Ck::Cur, 0));
            }
            f.push(auth);
            f.extend(post.iter().cloned());
            let mut r = Req::plain(ver, f);
            r.alg512 = alg512;
            out.push(r);
        };
    for ver in [4u8, 5] {
        let deltas: &[i32] = if ver == 5 {
            &[-4, -3, -2, -1, 0, 1, 2, 3]
        } else {
            &[-4, 0, 4]
        };
        for pre in pres.iter() {
            for post in posts.iter() {
                for nl in 0..=20u16 {
                    for cl in 0..=20u16 {
                        let consistent = 4 + ((nl as i32 + 3) & !3) + cl as i32;
                        for d in deltas {
                            push(
                                ver,
                                false,
                                pre,
                                Fld::RawAuth(nl, cl, (consistent + d).max(0) as u16),
                                post,
                                (nl + cl) % 2 == 1,
                            );
                        }
                    }
                }
                for alg512 in [false, true] {
                    let mut aus = vec![Au::OtherAad, Au::ForeignEmpty];
                    for k in 0..16u8 {
                        aus.push(Au::Trunc(k));
                    }
                    for au in aus {
                        push(ver, alg512, pre, Fld::Auth(au, vec![]), post, false);
                        push(
                            ver,
                            alg512,
                            pre,
                            Fld::Auth(au, vec![Fld::Ph(0)]),
                            post,
                            false,
                        );
                    }
                }
            }
        }
    }
    out
}

// ---- (B) rotation histories -----------------------------------------------------------------

/// events: 0 = rotate, 1 = poll, 2 = poll with two placeholders
fn run_history(
    findings: &Findings,
    mut loc: Option<&mut Local>,
    h: usize,
    ver: u8,
    alg512: bool,
    events: &[u8],
) -> String {
    let trace = || {
        format!(
            "seq;h{};v{};a{};{}",
            h,
            ver,
            alg512 as u8,
            events
                .iter()
                .map(|e| ["R", "P", "Q"][*e as usize])
                .collect::<Vec<_>>()
                .join(",")
        )
    };
    let sess = Session { alg512 };
    let mut provider = KeySetProvider::new(h);
    let mut server = make_server(Cfg::Open, &Sync::TYPICAL, &provider.get());
    let mut rot = 0u32;
    let mut pool: VecDeque<(Vec<u8>, u32)> = VecDeque::new();
    let mut obs = String::new();
    for (step, e) in events.iter().enumerate() {
        if *e == 0 {
            provider.rotate();
            server.update_keyset(provider.get());
            rot += 1;
            obs.push_str("R;");
            continue;
        }
        if pool.is_empty() {
            // key exchange: a cookie minted by the server's current key set
            pool.push_back((provider.get().encode_cookie(&sess.decoded()), rot));
            if let Some(l) = loc.as_deref_mut() {
                l.inc("key_exchanges");
            }
        }
        let (cookie, minted) = pool.pop_front().unwrap();
        let expected = if (rot - minted) as usize <= h {
            AuthState::Valid
        } else {
            AuthState::Invalid
        };
        let mut fields = vec![Fld::Uid(32), Fld::Cookie(Ck::Custom, 0)];
        if *e == 2 {
            fields.push(Fld::Ph(0));
            fields.push(Fld::Ph(0));
        }
        if ver == 5 {
            fields.push(Fld::Draft(true));
        }
        fields.push(Fld::Auth(Au::Ok, vec![]));
        let mut req = Req::plain(ver, fields);
        req.alg512 = alg512;
        let mut keys = key_env(false);
        keys.server = provider.get();
        keys.custom = cookie;
        let b = build(&req, &keys);
        if let Some(l) = loc.as_deref_mut() {
            l.inc("evaluations");
            l.inc("transitions_seq");
            l.inc(if expected == AuthState::Valid {
                "seq_polls_expected_valid"
            } else {
                "seq_polls_expected_invalid"
            });
        }
        let handled = match run_handle(&mut server, client_ip(0), &b.bytes, BIG_BUF) {
            Ok(h) => h,
            Err(p) => {
                findings.report(
                    "C19:panic",
                    events.len(),
                    || format!("Server::handle panicked at step {step}: {p}"),
                    trace,
                );
                return format!("{obs}panic");
            }
        };
        let cur = provider.get();
        let (o, fresh) = judge_answer(
            findings, &mut loc, expected, false, &cur, &req, &b, &handled, &trace,
        );
        obs.push_str(&format!(
            "{}:{}->{};",
            if *e == 1 { "P" } else { "Q" },
            rot - minted,
            o
        ));
        for c in fresh {
            pool.push_back((c, rot));
        }
    }
    obs
}

fn replay(ctx: &Ctx, trace: &str) -> String {
    let findings = Findings::new();
    let p: Vec<&str> = trace.split(';').collect();
    let obs = if p.first() == Some(&"seq") && p.len() == 5 {
        let h: usize = p[1].trim_start_matches('h').parse().unwrap_or(1);
        let ver: u8 = p[2].trim_start_matches('v').parse().unwrap_or(4);
        let alg512 = p[3] == "a1";
        let events: Vec<u8> = p[4]
            .split(',')
            .filter(|s| !s.is_empty())
            .map(|s| match s {
                "R" => 0,
                "P" => 1,
                _ => 2,
            })
            .collect();
        run_history(&findings, None, h, ver, alg512, &events)
    } else if p.first() == Some(&"layout") && p.len() == 4 {
        match (Cfg::parse(p[1]), Req::parse(p[3])) {
            (Some(cfg), Some(req)) => {
                let keys = key_env(p[2] == "k1");
                let mut server = make_server(cfg, &Sync::TYPICAL, &keys.server);
                judge_layout(&findings, None, cfg, &keys, &mut server, &req)
            }
            _ => format!("unparseable trace {trace:?}"),
        }
    } else {
        format!("unparseable trace {trace:?}")
    };
    findings.flush(ctx);
    obs
}

#[test]
fn check() {
    let ctx = Ctx::new("C19");
    if let Some(t) = common::replay_trace() {
        let a = replay(&ctx, &t);
        let b = replay(&ctx, &t);
        common::report_replay("C19", &a, &b, ctx.violation_count() > 0);
        return;
    }
    let thorough = !ctx.quick();
    ctx.rule(
        "(A) NTS layouts: version {4,5} x AEAD {256,512} x identifier {0,1,2} x unknown fields in front {0,7,8 (+1,6 thorough)} x cookies \
         {none, current, previous, expired, foreign, current+current, current+expired} x placeholders (authenticated, encrypted) from 11 pairs \
         (thorough: all with total <=9) x placeholder length {-4,0,+4} x authenticator {valid, 8-byte nonce, bad tag, wrong key} x extra encrypted \
         fields {no, yes}; environments {open, denylist} x key set {rotated twice, fresh}. (B) every event word of length <=6 (thorough 8) over \
         {rotate, poll, poll+2 placeholders} x provider history {0,1,2} x version {4,5} x AEAD {256,512}, client re-using the cookies it was given. \
         (C) structurally degenerate authenticators behind a valid cookie: hand-framed field 0x0404 with nonce length 0..=20 x ciphertext length 0..=20 x \
         body length consistent-4..=+3 (v4: -4,0,+4), and genuine c2s seals over other associated data / cut to 0..15 bytes / of an empty plaintext under a \
         foreign key (both AEADs, with and without an encrypted placeholder); x {nothing, identifier, identifier+placeholder} in front x {nothing, unknown, \
         unknown+identifier} behind; environments {open/rotated, denylist/fresh, open/fresh}. \
         Distinct & non-trivial = an answered (environment, layout), or a complete history.",
    );
    ctx.assume("a request with several cookies in front of the authenticator, or several authenticators, may be either refused (NAK) or answered with an authenticated answer");
    ctx.assume("'current keys' = the key set installed in the server at the time of the request; a cookie minted r rotations ago must be accepted iff r <= history (KeySetProvider documentation)");
    ctx.assume("cookie and placeholder fields of the whole request (authenticated, encrypted and trailing part) count for the upper bound on fresh cookies");
    let findings = Findings::new();
    // (A)
    let lay = layouts(thorough);
    ctx.set("layouts", lay.len() as u64);
    for (cfg, rotated) in [
        (Cfg::Open, true),
        (Cfg::DenyList, true),
        (Cfg::Open, false),
        (Cfg::DenyList, false),
    ] {
        let keys = key_env(rotated);
        common::par_for_with(
            lay.len() as u64,
            32,
            || {
                (
                    Local::new(&ctx),
                    make_server(cfg, &Sync::TYPICAL, &keys.server),
                )
            },
            |(loc, server), i| {
                let req = lay[i as usize].req();
                judge_layout(&findings, Some(loc), cfg, &keys, server, &req);
            },
        );
        if ctx.over_budget() {
            ctx.cap_hit("budget reached inside part (A)");
            break;
        }
    }
    // (C)
    let degen = degenerate(thorough);
    ctx.set("degenerate_requests", degen.len() as u64);
    for (cfg, rotated) in [
        (Cfg::Open, true),
        (Cfg::DenyList, false),
        (Cfg::Open, false),
    ] {
        let keys = key_env(rotated);
        common::par_for_with(
            degen.len() as u64,
            64,
            || {
                (
                    Local::new(&ctx),
                    make_server(cfg, &Sync::TYPICAL, &keys.server),
                )
            },
            |(loc, server), i| {
                loc.inc("degenerate_cases");
                judge_layout(&findings, Some(loc), cfg, &keys, server, &degen[i as usize]);
            },
        );
    }
    // (B)
    let depth = if thorough { 8 } else { 6 };
    let mut words: Vec<Vec<u8>> = vec![];
    for len in 1..=depth {
        for w in common::product(3, len) {
            // only words that end in a poll are maximal observations; shorter prefixes are covered by them
            if *w.last().unwrap() != 0 {
                words.push(w.iter().map(|x| *x as u8).collect());
            }
        }
    }
    ctx.set("history_words", words.len() as u64);
    let mut combos = vec![];
    for h in 0..3usize {
        for ver in [4u8, 5] {
            for alg512 in [false, true] {
                combos.push((h, ver, alg512));
            }
        }
    }
    if !ctx.over_budget() {
        common::par_for_with(
            (words.len() * combos.len()) as u64,
            16,
            || Local::new(&ctx),
            |loc, i| {
                let (h, ver, alg512) = combos[i as usize % combos.len()];
                let w = &words[i as usize / combos.len()];
                run_history(&findings, Some(loc), h, ver, alg512, w);
                loc.inc("histories");
                loc.distinct(common::hash_of(&(h, ver, alg512, w)));
            },
        );
    } else {
        ctx.cap_hit("part (B) not started");
    }
    // samples
    {
        let keys = key_env(true);
        let mut server = make_server(Cfg::Open, &Sync::TYPICAL, &keys.server);
        for code in [
            "v4.m3.p6.l0.g0.a0|u32,cC0,p0,p0,Aok()|m0",
            "v4.m3.p6.l0.g0.a0|u32,cP0,p-4,Aok(p0)|m0",
            "v4.m3.p6.l0.g0.a0|u32,cE0,Aok()|m0",
            "v4.m3.p6.l0.g0.a0|u32,cC0,Abad()|m0",
            "v5.m3.p6.l0.g0.a1|u32,cC0,p0,p0,p0,p0,p0,p0,p0,p0,p0,d1,Aok()|m0",
        ] {
            let r = Req::parse(code).unwrap();
            let f = Findings::new();
            ctx.sample(format!(
                "{code} -> {}",
                judge_layout(&f, None, Cfg::Open, &keys, &mut server, &r)
            ));
        }
        let f = Findings::new();
        ctx.sample(format!(
            "history h=1 v4 R,P,R,Q,R,R,P -> {}",
            run_history(&f, None, 1, 4, false, &[0, 1, 0, 2, 0, 0, 1])
        ));
    }
    findings.flush(&ctx);
    ctx.set("transitions", ctx.get("evaluations"));
    ctx.set(
        "states",
        ctx.get("layouts") * 4 + ctx.get("degenerate_cases") + ctx.get("histories"),
    );
    ctx.exhaustive(ctx.get("histories") > 0);
    ctx.finish();
}
