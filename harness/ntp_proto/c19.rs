//! C19: not implemented yet.
