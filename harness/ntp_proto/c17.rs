//! C17 — a request-sized buffer always suffices for the server's answer.
//!
//! Engine E-IN, differential. Every request of the shared grammar G (see c16.rs) and
//! every truncation of the shorter ones is handled twice by the real `Server::handle`
//! (same configuration, key set, clock, reception time):
//!   * with an answer buffer exactly as long as the request (what the daemon passes), and
//!   * with a 4096-byte buffer (the server's unconstrained decision and answer).
//! Oracle (from the statement): whenever the unconstrained run answers, the request-sized
//! run answers too, with the same answer (compared after removing what is random by
//! design: AEAD nonces/ciphertexts — the encrypted part is compared as the list of
//! decrypted field types and lengths — and the NTPv5 server cookie).
//!
//! A failing case is classified by *why* the unconstrained answer is longer than the
//! request, so that independent causes get independent classes:
//!   C17:v4-uid-min-size        plain NTPv4 answer; the echoed unique-identifier fields were
//!                              re-encoded with the RFC 7822 minimum sizes (16, last 28) and
//!                              without that growth the answer would fit
//!   C17:nts-uid-min-size       same for the authenticated part of an NTS answer (minimum 16)
//!   C17:nts-short-nonce        the client's authenticator used a nonce shorter than the
//!                              server's 16 bytes and without that difference it would fit
//!   C17:nts-uid-min-size+short-nonce   both together are needed to explain the excess
//!   C17:answer-larger-than-request     any other cause
//!   C17:dropped-although-it-fits       the unconstrained answer is not longer than the
//!                                      request and still the request-sized run ignored it
//!   C17:answers-differ / C17:only-small-answers   the two runs disagree otherwise
use std::net::IpAddr;

use super::c16::MockClock;
use super::c16::{
    AField, Answer, AuthState, BIG_BUF, Built, Cfg, Findings, Fld, Handled, KeyEnv, Kind, Local,
    MAX_DATAGRAM, Out, Req, Session, Sync, T_AUTH, T_UID, Zone, build, client_ip, grammar, key_env,
    kind_key, make_server, open_nts, run_handle, walk,
};
use super::common::{self, Ctx};
use crate::{Server, ServerReason, ServerResponse};

/// The answer with everything that is random by design removed.
fn canon(raw: &[u8], sess: &Session) -> String {
    let Ok(a) = walk(raw) else {
        return format!("unwalkable:{}", common::hex(raw));
    };
    let mut hdr = raw[..48].to_vec();
    if a.ver == 5 {
        hdr[16..24].fill(0);
    }
    let mut s = format!("len={};hdr={};", raw.len(), common::hex(&hdr));
    let opened = open_nts(&a, sess.s2c().as_ref()).ok();
    for f in &a.fields {
        if f.ty == T_AUTH {
            match &opened {
                Some(o) => {
                    s.push_str(&format!(
                        "auth(declared={},nonce={},inner=[{}]);",
                        f.declared,
                        o.nonce.len(),
                        o.inner
                            .iter()
                            .map(|i| format!("{:04x}:{}", i.ty, i.declared))
                            .collect::<Vec<_>>()
                            .join(",")
                    ));
                }
                None => s.push_str(&format!("auth-unopened(declared={});", f.declared)),
            }
        } else {
            s.push_str(&format!(
                "{:04x}:{}:{}:{};",
                f.ty,
                f.declared,
                common::hex(&f.body),
                common::hex(&f.pad)
            ));
        }
    }
    s
}

/// wire size of the request's nonce field part (padded) for the first authenticator
fn request_nonce_padded(b: &Built) -> Option<usize> {
    let req_ver = (b.bytes[0] >> 3) & 7;
    let sp = b.spans.iter().find(|s| s.ty == T_AUTH)?;
    if req_ver == 4 && b.bytes.len() - sp.off <= 24 {
        return None;
    }
    let o = sp.off;
    if o + 6 > b.bytes.len() {
        return None;
    }
    let nl = u16::from_be_bytes([b.bytes[o + 4], b.bytes[o + 5]]) as usize;
    Some((nl + 3) & !3)
}

/// Why is `big` longer than the request? Returns the class.
fn classify(b: &Built, big: &Answer) -> &'static str {
    let excess = big.raw.len() as i64 - b.bytes.len() as i64;
    // Known causes are attributed *structurally*: only extension fields that the request really
    // contains by RFC 7822 framing count. In NTPv4 parsing of extension fields stops as soon as at
    // most 24 bytes remain (those are a legacy MAC, whatever they look like), so a recorded field
    // that starts within the last 24 bytes of the datagram is not a field, nor is anything after it.
    let req_ver = (b.bytes[0] >> 3) & 7;
    let mut genuine: Vec<&super::c16::Span> = vec![];
    for sp in b.spans.iter() {
        if req_ver == 4 && b.bytes.len() - sp.off <= 24 {
            break;
        }
        if sp.off + sp.wire > b.bytes.len() {
            break;
        }
        genuine.push(sp);
    }
    // growth of echoed unique identifiers: answer wire size minus the wire size of the genuine
    // request identifier field with the same body (matched in order)
    let mut req_uids: Vec<(Vec<u8>, usize)> = vec![];
    for sp in genuine.iter().filter(|s| s.ty == T_UID) {
        let declared = u16::from_be_bytes([b.bytes[sp.off + 2], b.bytes[sp.off + 3]]) as usize;
        if declared < 4 || sp.off + declared > b.bytes.len() {
            continue;
        }
        req_uids.push((b.bytes[sp.off + 4..sp.off + declared].to_vec(), sp.wire));
    }
    let mut growth_uid = 0i64;
    let mut cursor = 0usize;
    for f in big.fields.iter().filter(|f| f.ty == T_UID) {
        // find the next request uid whose body is a prefix of the answer's (rest zero padding)
        let mut matched = None;
        for (k, (body, wire)) in req_uids.iter().enumerate().skip(cursor) {
            if f.body.len() >= body.len()
                && f.body[..body.len()] == body[..]
                && f.body[body.len()..].iter().all(|x| *x == 0)
            {
                matched = Some((k, *wire));
                break;
            }
        }
        match matched {
            Some((k, wire)) => {
                cursor = k + 1;
                growth_uid += f.wire as i64 - wire as i64;
            }
            None => return "C17:answer-larger-than-request",
        }
    }
    let has_auth = big.fields.iter().any(|f| f.ty == T_AUTH);
    let mut growth_nonce = 0i64;
    if has_auth {
        if let (Some(req_n), Some(f)) = (
            request_nonce_padded(b),
            big.fields.iter().find(|f| f.ty == T_AUTH),
        ) {
            if f.body.len() >= 2 {
                let nl = u16::from_be_bytes([f.body[0], f.body[1]]) as usize;
                growth_nonce = (((nl + 3) & !3) as i64 - req_n as i64).max(0);
            }
        }
    }
    if growth_uid > 0 && growth_nonce == 0 && excess <= growth_uid {
        if has_auth {
            "C17:nts-uid-min-size"
        } else if big.ver == 4 {
            "C17:v4-uid-min-size"
        } else {
            "C17:answer-larger-than-request"
        }
    } else if growth_nonce > 0 && excess <= growth_nonce {
        "C17:nts-short-nonce"
    } else if growth_nonce > 0 && growth_uid > 0 && excess <= growth_uid + growth_nonce {
        "C17:nts-uid-min-size+short-nonce"
    } else {
        "C17:answer-larger-than-request"
    }
}

/// Two servers with the same configuration, key set, clock and state: one only ever gets
/// request-sized buffers, the other 4096-byte buffers. (The configurations used here have
/// the rate-limit cache disabled, so a server carries no state from one datagram to the next.)
struct Pair {
    small: Server<MockClock>,
    big: Server<MockClock>,
}

impl Pair {
    fn new(cfg: Cfg, keys: &KeyEnv) -> Pair {
        Pair {
            small: make_server(cfg, &Sync::TYPICAL, &keys.server),
            big: make_server(cfg, &Sync::TYPICAL, &keys.server),
        }
    }
}

fn differential(
    pair: &mut Pair,
    b: &Built,
    ip: IpAddr,
) -> (Result<Handled, String>, Result<Handled, String>) {
    let small = run_handle(&mut pair.small, ip, &b.bytes, b.bytes.len());
    let big = run_handle(&mut pair.big, ip, &b.bytes, BIG_BUF);
    (small, big)
}

fn judge(
    findings: &Findings,
    loc: Option<&mut Local>,
    pair: &mut Pair,
    cfg: Cfg,
    keys: &KeyEnv,
    req: &Req,
    b: &Built,
    cut: usize,
) -> String {
    let sess = req.session();
    let trace = || {
        format!(
            "{};k{};{};cut={}",
            cfg.code(),
            keys.rotated as u8,
            req.code(),
            cut
        )
    };
    let (small, big) = differential(pair, b, client_ip(0));
    let mut obs = String::new();
    let (small, big) = match (small, big) {
        (Ok(s), Ok(bg)) => (s, bg),
        (s, bg) => {
            let msg = format!(
                "panic: small={:?} big={:?}",
                s.as_ref().err(),
                bg.as_ref().err()
            );
            findings.report("C17:panic", b.bytes.len(), || msg.clone(), trace);
            return msg;
        }
    };
    let mut l = loc;
    let mut inc = |k: &'static str| {
        if let Some(l) = l.as_deref_mut() {
            l.inc(k);
        }
    };
    inc("evaluations");
    inc("evaluations");
    match (&small.out, &big.out) {
        (Out::Ignore, Out::Ignore) => {
            // "the policy decided to answer" is visible in the statistics: a failed
            // serialisation of the answer is registered as InternalError
            let dropped = |regs: &Vec<(u8, bool, ServerReason, ServerResponse)>| {
                regs.iter().any(|r| r.2 == ServerReason::InternalError)
            };
            if dropped(&small.regs) || dropped(&big.regs) {
                inc("both_drop_internal_error");
                findings.report(
                    "C17:answer-serialization-fails",
                    b.bytes.len(),
                    || {
                        format!(
                            "policy decided to answer but the answer could not be serialised even into 4096 bytes (request-sized run {:?}, 4096-byte run {:?}); request {} = {}",
                            small.regs,
                            big.regs,
                            req.code(),
                            common::hex(&b.bytes)
                        )
                    },
                    trace,
                );
                obs.push_str("both drop (InternalError)");
            } else {
                inc("both_ignore");
                obs.push_str("both ignore");
            }
        }
        (Out::Respond(sa), Out::Respond(ba)) => {
            inc("both_answer");
            if let Ok(a) = walk(ba) {
                inc(kind_key(a.kind()));
                if a.fields.iter().any(|f| f.ty == T_AUTH) {
                    inc("answers_nts");
                }
                if ba.len() == b.bytes.len() {
                    inc("answer_exactly_request_sized");
                }
            }
            let (cs, cb) = (canon(sa, &sess), canon(ba, &sess));
            if cs != cb {
                findings.report(
                    "C17:answers-differ",
                    b.bytes.len(),
                    || format!("request-sized buffer: {cs}  4096-byte buffer: {cb}"),
                    trace,
                );
            }
            if small.regs != big.regs {
                findings.report(
                    "C17:statistics-differ",
                    b.bytes.len(),
                    || {
                        format!(
                            "request-sized buffer registered {:?}, 4096-byte buffer {:?}",
                            small.regs, big.regs
                        )
                    },
                    trace,
                );
            }
            obs.push_str(&format!("both answer {} bytes", ba.len()));
        }
        (Out::Respond(sa), Out::Ignore) => {
            findings.report(
                "C17:only-small-answers",
                b.bytes.len(),
                || {
                    format!(
                        "request-sized run answered {} bytes, 4096-byte run ignored",
                        sa.len()
                    )
                },
                trace,
            );
            obs.push_str("only small answers");
        }
        (Out::Ignore, Out::Respond(ba)) => {
            inc("dropped");
            // statistics of the dropped run: the statement's "silently dropped"
            if small
                .regs
                .iter()
                .any(|r| r.2 == ServerReason::InternalError && r.3 == ServerResponse::Ignore)
            {
                inc("dropped_registered_internal_error");
            }
            let class = if ba.len() <= b.bytes.len() {
                "C17:dropped-although-it-fits"
            } else {
                match walk(ba) {
                    Ok(a) => classify(b, &a),
                    Err(_) => "C17:answer-larger-than-request",
                }
            };
            let kind = walk(ba).map(|a| a.kind());
            findings.report(
                class,
                b.bytes.len(),
                || {
                    format!(
                        "policy answers ({:?}, {} bytes with a 4096-byte buffer) but the {}-byte request-sized buffer drops it; \
                         small run registered {:?}; request {} = {}",
                        kind,
                        ba.len(),
                        b.bytes.len(),
                        small.regs,
                        req.code(),
                        common::hex(&b.bytes)
                    )
                },
                trace,
            );
            obs.push_str(&format!(
                "dropped: {} > {} -> {}",
                ba.len(),
                b.bytes.len(),
                class
            ));
        }
    }
    obs
}

fn replay(ctx: &Ctx, trace: &str) -> String {
    // "<cfg>;k<0|1>;<req code>;cut=<n>"
    let p: Vec<&str> = trace.split(';').collect();
    if p.len() != 4 {
        return format!("unparseable trace {trace:?}");
    }
    let (Some(cfg), Some(req)) = (Cfg::parse(p[0]), Req::parse(p[2])) else {
        return format!("unparseable trace {trace:?}");
    };
    let keys = key_env(p[1] == "k1");
    let cut: usize = p[3]
        .trim_start_matches("cut=")
        .parse()
        .unwrap_or(usize::MAX);
    let full = build(&req, &keys);
    let cut = cut.min(full.bytes.len()).min(MAX_DATAGRAM);
    let b = full.truncated(cut);
    let findings = Findings::new();
    let mut pair = Pair::new(cfg, &keys);
    let obs = judge(&findings, None, &mut pair, cfg, &keys, &req, &b, cut);
    findings.flush(ctx);
    obs
}

#[test]
fn check() {
    let ctx = Ctx::new("C17");
    if let Some(t) = common::replay_trace() {
        let a = replay(&ctx, &t);
        let b = replay(&ctx, &t);
        common::report_replay("C17", &a, &b, ctx.violation_count() > 0);
        return;
    }
    let thorough = !ctx.quick();
    ctx.rule(
        "grammar G of c16.rs (all words of <=3 extension-field symbols per version x MAC variants, v3 tails, capped at 1024 bytes) \
         and every truncation of requests with <=2 symbols (quick: in the open configuration; thorough: <=3 symbols), each handled \
         by two identically configured servers: request-sized buffer vs 4096-byte buffer; configurations {open, denylist->DENY, require-NTS->DENY, \
         only-v4} x key-set state {rotated twice, fresh}. Distinct & non-trivial = an (environment, request, cut) whose unconstrained \
         run answers.",
    );
    ctx.assume("AEAD nonces, fresh cookies and the NTPv5 server cookie are random by design; answers are compared after decrypting the encrypted part with the client's s2c key and masking those values");
    let reqs = grammar(thorough, 3);
    ctx.set("grammar_requests", reqs.len() as u64);
    let findings = Findings::new();
    let envs: Vec<(Cfg, bool, bool)> = vec![
        // (configuration, rotated key set, with truncations)
        (Cfg::Open, true, true),
        (Cfg::DenyList, false, thorough),
        (Cfg::RequireNtsDeny, true, thorough),
        (Cfg::OnlyV4, false, false),
        (Cfg::Open, false, false),
    ];
    let trunc_len = if thorough { 3 } else { 2 };
    for (ei, (cfg, rotated, trunc)) in envs.iter().enumerate() {
        let keys = key_env(*rotated);
        common::par_for_with(
            reqs.len() as u64,
            32,
            || (Local::new(&ctx), Pair::new(*cfg, &keys)),
            |(loc, pair), i| {
                let req = &reqs[i as usize];
                let mut full = build(req, &keys);
                if full.bytes.len() > MAX_DATAGRAM {
                    full = full.truncated(MAX_DATAGRAM);
                    loc.inc("capped_to_1024");
                }
                let n_sym = req
                    .fields
                    .iter()
                    .filter(|f| !matches!(f, Fld::Draft(true)))
                    .count();
                let n = full.bytes.len();
                let cuts: Vec<usize> = if *trunc && n_sym <= trunc_len {
                    (0..=n).collect()
                } else {
                    vec![n]
                };
                for cut in cuts {
                    let b = if cut == n {
                        full.clone()
                    } else {
                        full.truncated(cut)
                    };
                    let obs = judge(&findings, Some(loc), pair, *cfg, &keys, req, &b, cut);
                    if !obs.starts_with("both ignore") {
                        loc.distinct(common::hash_of(&(cfg, rotated, req, cut)));
                    }
                }
            },
        );
        if ctx.over_budget() && ei + 1 < envs.len() {
            ctx.cap_hit(&format!(
                "budget reached after {} of {} environments",
                ei + 1,
                envs.len()
            ));
            findings.flush(&ctx);
            ctx.exhaustive(false);
            ctx.finish();
            return;
        }
    }
    // a few human readable samples
    let keys = key_env(true);
    for code in [
        "v4.m3.p6.l0.g0.a0||m0",
        "v4.m3.p6.l0.g0.a0|u32,cC0,Aok()|m0",
        "v4.m3.p6.l0.g0.a0|u0,u0|m24",
        "v4.m3.p6.l0.g0.a0|u4,cC0,Aok()|m0",
        "v5.m3.p6.l0.g0.a0|u32,cC0,d1,An8()|m0",
    ] {
        if let Some(r) = Req::parse(code) {
            let b = build(&r, &keys);
            let f = Findings::new();
            let mut pair = Pair::new(Cfg::Open, &keys);
            let o = judge(&f, None, &mut pair, Cfg::Open, &keys, &r, &b, b.bytes.len());
            ctx.sample(format!("{code} ({} bytes) -> {o}", b.bytes.len()));
        }
    }
    findings.flush(&ctx);
    ctx.set("transitions", ctx.get("evaluations"));
    ctx.set("states", ctx.get("grammar_requests"));
    ctx.exhaustive(true);
    ctx.finish();
}
