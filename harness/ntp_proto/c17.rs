//! C17: not implemented yet.
