//! Probe: child module of `ntp_proto::algorithm` (hook H5).
//!
//! `sched_point()` is awaited at the top of every iteration of
//! `TimeSyncControllerWrapper::run` when the verification cfg is on. It returns
//! `Ready` immediately unless a harness armed it on the current thread, in which case
//! it returns `Pending` exactly once per iteration so that "process one message /
//! one timer expiry" becomes one step of the harness-driven executor.
#![allow(dead_code)]

use std::cell::Cell;

thread_local! {
    static ARMED: Cell<bool> = const { Cell::new(false) };
    static ITERATIONS: Cell<u64> = const { Cell::new(0) };
}

/// Arm / disarm the scheduling point for the current thread.
pub(crate) fn arm(on: bool) {
    ARMED.with(|a| a.set(on));
}

/// Number of loop iterations started on this thread since the last reset.
pub(crate) fn iterations() -> u64 {
    ITERATIONS.with(Cell::get)
}

pub(crate) fn reset_iterations() {
    ITERATIONS.with(|i| i.set(0));
}

pub(crate) struct SchedPoint {
    yielded: bool,
}

impl std::future::Future for SchedPoint {
    type Output = ();
    fn poll(
        mut self: std::pin::Pin<&mut Self>,
        _cx: &mut std::task::Context<'_>,
    ) -> std::task::Poll<()> {
        if ARMED.with(Cell::get) && !self.yielded {
            self.yielded = true;
            // no wake-up: the harness executor re-polls explicitly
            std::task::Poll::Pending
        } else {
            ITERATIONS.with(|i| i.set(i.get() + 1));
            std::task::Poll::Ready(())
        }
    }
}

pub(crate) fn sched_point() -> SchedPoint {
    SchedPoint { yielded: false }
}

/// `mod kalman` is private inside `algorithm`; re-export its probe so harness code can
/// name it as `crate::algorithm::verif_probe::kalman_probe::<group>::…`.
pub(crate) use super::kalman::verif_probe as kalman_probe;

/// Run `f` while the calling thread holds the wrapper's `used_sources` mutex (what an
/// observer calling `synchronization_state()` holds for an instant). Used by C37 to
/// enumerate the schedule "the loop publishes while an observer holds the lock".
pub(crate) fn with_used_sources_locked<T: super::InternalTimeSyncController, R>(
    wrapper: &super::TimeSyncControllerWrapper<T>,
    f: impl FnOnce() -> R,
) -> R {
    let _guard = wrapper.used_sources.lock().unwrap();
    f()
}

/// Same for the published time snapshot mutex.
pub(crate) fn with_snapshot_locked<T: super::InternalTimeSyncController, R>(
    wrapper: &super::TimeSyncControllerWrapper<T>,
    f: impl FnOnce() -> R,
) -> R {
    let _guard = wrapper.snapshot.lock().unwrap();
    f()
}
