//! C20 — Rate limiting answers to the client's own request rate.
//!
//! Part A (E-SEQ on the private `TimestampedCache`, probe `server::verif_probe::gf`):
//!   every sequence of (address in {a,b,c}, delta-t in {0, 9, 10, 11}) up to length L,
//!   for cache sizes 0..3, cutoffs {0, 10} and EVERY way the three addresses can share
//!   slots that the size admits (set partitions with <= size blocks). The cache hashes
//!   with a per-instance `RandomState`; the harness owns that by choosing, for each cache
//!   instance, concrete addresses whose OBSERVED slot realises the wanted sharing pattern,
//!   and the reference is parametrised by the observed slot of each address.
//!   The sequence tree is walked depth first on forks of the real cache (same hash state).
//!
//! Part B (E-IN/E-SEQ on `Server::handle`): every sequence up to length 3 (quick) / 4
//!   (thorough) over (client in {3 listed-OK clients, one deny-listed, one not on the allow
//!   list} x datagram in {valid plain, valid NTS, undecryptable NTS, non-client mode,
//!   garbage}) for cache sizes {0,1,2,32} (thorough: + 3), cutoffs {0, 1 h}, every slot sharing pattern of
//!   the three passing clients, both list actions. `intended_action` reads
//!   `std::time::Instant::now`: real elapsed time between two calls is microseconds, i.e.
//!   unambiguously ">= 0" and "< 1 h". The deny-listed and the unlisted client are chosen
//!   to hash into the slot of the first passing client, so a limiter consulted before the
//!   lists would be noticed.
//!
//! Reference (from the statement), three valued:
//!   must-limit  : same address passed the lists less than the cutoff ago and no other
//!                 (list-passing) address used the same slot in between  -> no answer
//!   must-allow  : no own previous list-passing request within the cutoff (or size 0)
//!   unspecified : own previous request within the cutoff but another address used the
//!                 slot in between (the statement allows either; what happens is counted)
use std::collections::BTreeMap;
use std::net::{IpAddr, Ipv4Addr, Ipv6Addr};
use std::time::{Duration, Instant};

use super::c15::{self, Act, Ans, Dgram, Keys, Policy};
use super::common::{self, Ctx};
use crate::server::verif_probe::gf::{Cache, server_slot};
use crate::server::{ServerReason, ServerResponse};

const DELTAS: [u64; 4] = [0, 9, 10, 11];
const NADDR: usize = 3;
const NSYM: usize = NADDR * DELTAS.len();

#[derive(Clone, Copy, PartialEq, Eq, Debug)]
enum Want {
    MustLimit,
    MustAllow,
    Unspecified,
}

/// All restricted-growth strings of length n with at most `max_blocks` blocks: the set
/// partitions of n addresses into slots.
fn partitions(n: usize, max_blocks: usize) -> Vec<Vec<usize>> {
    fn rec(
        n: usize,
        max_blocks: usize,
        cur: &mut Vec<usize>,
        used: usize,
        out: &mut Vec<Vec<usize>>,
    ) {
        if cur.len() == n {
            out.push(cur.clone());
            return;
        }
        for b in 0..=used.min(max_blocks.saturating_sub(1)) {
            cur.push(b);
            rec(n, max_blocks, cur, used.max(b + 1), out);
            cur.pop();
        }
    }
    let mut out = Vec::new();
    if max_blocks == 0 {
        return vec![vec![0; n]]; // size 0: no slots at all; pattern is irrelevant
    }
    rec(n, max_blocks, &mut Vec::new(), 0, &mut out);
    out
}

fn pool_addr(i: u32) -> IpAddr {
    if i % 2 == 0 {
        IpAddr::V4(Ipv4Addr::new(10, 9, (i >> 9) as u8, (i >> 1) as u8))
    } else {
        IpAddr::V6(Ipv6Addr::new(
            0x2001,
            0xdb8,
            9,
            0,
            0,
            0,
            (i >> 17) as u16,
            (i >> 1) as u16,
        ))
    }
}

/// Choose addresses from `candidates` so that address i lands in the slot of block
/// `pattern[i]` (distinct blocks -> distinct slots), by looking at the observed slots.
fn realise(
    pattern: &[usize],
    slot_of: impl Fn(&IpAddr) -> Option<usize>,
    candidates: impl Iterator<Item = IpAddr>,
) -> Option<Vec<IpAddr>> {
    let mut by_slot: BTreeMap<usize, Vec<IpAddr>> = BTreeMap::new();
    let nblocks = pattern.iter().copied().max().unwrap_or(0) + 1;
    let mut need = vec![0usize; nblocks];
    for b in pattern {
        need[*b] += 1;
    }
    let mut sorted_need = need.clone();
    sorted_need.sort_unstable_by(|a, b| b.cmp(a));
    for c in candidates {
        let Some(s) = slot_of(&c) else {
            // size 0: any distinct addresses do
            let v = by_slot.entry(0).or_default();
            v.push(c);
            if v.len() == pattern.len() {
                return Some(v.clone());
            }
            continue;
        };
        by_slot.entry(s).or_default().push(c);
        // enough? greedily give the fullest slots to the neediest blocks
        let mut sizes: Vec<(usize, usize)> = by_slot.iter().map(|(s, v)| (v.len(), *s)).collect();
        sizes.sort_unstable_by(|a, b| b.cmp(a));
        if sizes.len() >= nblocks
            && sorted_need
                .iter()
                .zip(&sizes)
                .all(|(n, (have, _))| have >= n)
        {
            // assign: neediest block -> fullest slot
            let mut blocks: Vec<usize> = (0..nblocks).collect();
            blocks.sort_unstable_by(|a, b| need[*b].cmp(&need[*a]));
            let mut slot_for_block = vec![0usize; nblocks];
            for (bi, b) in blocks.iter().enumerate() {
                slot_for_block[*b] = sizes[bi].1;
            }
            let mut taken: BTreeMap<usize, usize> = BTreeMap::new();
            let mut out = Vec::new();
            for b in pattern {
                let s = slot_for_block[*b];
                let k = taken.entry(s).or_insert(0);
                out.push(by_slot[&s][*k]);
                *k += 1;
            }
            return Some(out);
        }
    }
    None
}

// ---------------------------------------------------------------------------------
// Part A: the cache
// ---------------------------------------------------------------------------------

#[derive(Clone)]
struct CacheCfg {
    size: usize,
    pattern: Vec<usize>,
    cutoff: u64,
    unit_ns: u64,
}

impl CacheCfg {
    fn trace(&self) -> String {
        format!(
            "cache;size={};pat={};cutoff={};unit={}",
            self.size,
            self.pattern
                .iter()
                .map(|b| b.to_string())
                .collect::<String>(),
            self.cutoff,
            self.unit_ns
        )
    }
}

fn sym(s: usize) -> (usize, u64) {
    (s / DELTAS.len(), DELTAS[s % DELTAS.len()])
}

fn seq_text(seq: &[usize]) -> String {
    seq.iter()
        .map(|s| {
            let (a, d) = sym(*s);
            format!("{}+{}", (b'a' + a as u8) as char, d)
        })
        .collect::<Vec<_>>()
        .join(",")
}

/// Reference verdict for the last element of `hist` ((address index, absolute time)).
fn want_cache(size: usize, cutoff: u64, slots: &[Option<usize>], hist: &[(usize, u64)]) -> Want {
    let (a, t) = *hist.last().unwrap();
    if size == 0 {
        return Want::MustAllow; // "With the cache size set to zero no client is ever rate-limited"
    }
    let before = &hist[..hist.len() - 1];
    let Some(j) = before.iter().rposition(|(x, _)| *x == a) else {
        return Want::MustAllow; // no own previous request
    };
    let ago = t - before[j].1;
    if ago >= cutoff {
        return Want::MustAllow; // own previous request not within the cutoff
    }
    let interloper = before[j + 1..]
        .iter()
        .any(|(x, _)| *x != a && slots[*x] == slots[a]);
    if interloper {
        Want::Unspecified
    } else {
        Want::MustLimit
    }
}

struct Walk<'a> {
    ctx: &'a Ctx,
    cfg: &'a CacheCfg,
    addrs: &'a [IpAddr],
    slots: Vec<Option<usize>>,
    base: Instant,
    max_len: usize,
    // local tallies
    nodes: u64,
    calls: u64,
    tally: [u64; 6],
    hashes: Vec<u64>,
    cfg_index: u64,
}

impl Walk<'_> {
    fn step(
        &mut self,
        cache: &Cache,
        seq: &mut Vec<usize>,
        hist: &mut Vec<(usize, u64)>,
        s: usize,
        judge: bool,
    ) -> Option<Cache> {
        let (a, d) = sym(s);
        let t = hist.last().map(|h| h.1).unwrap_or(0) + d;
        seq.push(s);
        hist.push((a, t));
        let mut next = cache.fork();
        let at = self.base + Duration::from_nanos(t * self.cfg.unit_ns);
        let cutoff = Duration::from_nanos(self.cfg.cutoff * self.cfg.unit_ns);
        let addr = self.addrs[a];
        self.calls += 1;
        let got = common::catch(|| next.is_allowed(addr, at, cutoff));
        let got = match got {
            Ok(g) => g,
            Err(e) => {
                self.ctx.violation(
                    "C20:cache-panic",
                    format!("TimestampedCache::is_allowed panicked: {e}"),
                    format!("{};seq={}", self.cfg.trace(), seq_text(seq)),
                );
                return None;
            }
        };
        if judge {
            self.nodes += 1;
            let want = want_cache(self.cfg.size, self.cfg.cutoff, &self.slots, hist);
            let idx = match (want, got) {
                (Want::MustLimit, false) => 0,
                (Want::MustAllow, true) => 1,
                (Want::Unspecified, true) => 2,
                (Want::Unspecified, false) => 3,
                (Want::MustLimit, true) => 4,
                (Want::MustAllow, false) => 5,
            };
            self.tally[idx] += 1;
            if idx == 4 {
                self.ctx.violation(
                    if self.cfg.size == 0 { "C20:size0-limited" } else { "C20:not-limited-within-cutoff" },
                    format!(
                        "size {} cutoff {}: {} repeats within the cutoff with no other address in its slot in between, but is allowed (slots {:?})",
                        self.cfg.size,
                        self.cfg.cutoff,
                        (b'a' + a as u8) as char,
                        self.slots
                    ),
                    format!("{};seq={}", self.cfg.trace(), seq_text(seq)),
                );
            }
            if idx == 5 {
                self.ctx.violation(
                    if self.cfg.size == 0 { "C20:size0-limited" } else { "C20:limited-without-recent-own-request" },
                    format!(
                        "size {} cutoff {}: {} is limited although it has no own previous request within the cutoff (slots {:?})",
                        self.cfg.size,
                        self.cfg.cutoff,
                        (b'a' + a as u8) as char,
                        self.slots
                    ),
                    format!("{};seq={}", self.cfg.trace(), seq_text(seq)),
                );
            }
            if seq.len() <= 4 && hist[..hist.len() - 1].iter().any(|(x, _)| *x == a) {
                self.hashes
                    .push(common::hash_of(&("cache", self.cfg_index, &*seq)));
            }
        }
        Some(next)
    }

    fn dfs(&mut self, cache: &Cache, seq: &mut Vec<usize>, hist: &mut Vec<(usize, u64)>) {
        if seq.len() >= self.max_len {
            return;
        }
        for s in 0..NSYM {
            if let Some(next) = self.step(cache, seq, hist, s, true) {
                self.dfs(&next, seq, hist);
            }
            seq.pop();
            hist.pop();
        }
    }
}

const TALLY_NAMES: [&str; 6] = [
    "must-limit.limited",
    "must-allow.allowed",
    "unspecified.allowed",
    "unspecified.limited",
    "must-limit.ALLOWED",
    "must-allow.LIMITED",
];

fn cache_cfgs(thorough: bool) -> Vec<CacheCfg> {
    let mut v = Vec::new();
    let units: &[u64] = if thorough {
        &[1_000_000_000, 1]
    } else {
        &[1_000_000_000]
    };
    for size in 0..=3usize {
        for pattern in partitions(NADDR, size) {
            for cutoff in [0u64, 10] {
                for unit_ns in units {
                    v.push(CacheCfg {
                        size,
                        pattern: pattern.clone(),
                        cutoff,
                        unit_ns: *unit_ns,
                    });
                }
            }
        }
    }
    v
}

/// Run one (cfg, 2-symbol prefix) subtree. `prefix == None`: only the root level nodes
/// of length 1 (used when max_len < 2).
fn run_cache_subtree(
    ctx: &Ctx,
    cfg: &CacheCfg,
    cfg_index: u64,
    p1: usize,
    p2: usize,
    max_len: usize,
    prefix_fill: &str,
) {
    let root = Cache::new(cfg.size);
    let Some(addrs) = realise(&cfg.pattern, |a| root.slot(a), (0..4096).map(pool_addr)) else {
        ctx.cap_hit(&format!(
            "machinery: could not realise slot pattern {:?} for size {}",
            cfg.pattern, cfg.size
        ));
        return;
    };
    let slots: Vec<Option<usize>> = addrs.iter().map(|a| root.slot(a)).collect();
    // the realised pattern must be the wanted one
    for i in 0..NADDR {
        for j in 0..NADDR {
            if cfg.size > 0 && (slots[i] == slots[j]) != (cfg.pattern[i] == cfg.pattern[j]) {
                ctx.cap_hit("machinery: realised slot pattern differs from the wanted one");
                return;
            }
        }
    }
    let mut w = Walk {
        ctx,
        cfg,
        addrs: &addrs,
        slots,
        base: Instant::now(),
        max_len,
        nodes: 0,
        calls: 0,
        tally: [0; 6],
        hashes: Vec::new(),
        cfg_index,
    };
    let mut seq = Vec::new();
    let mut hist = Vec::new();
    // level 1 node is judged by the subtree with p2 == 0 only (so every node is judged once)
    if let Some(c1) = w.step(&root, &mut seq, &mut hist, p1, p2 == 0) {
        if max_len >= 2 {
            if let Some(c2) = w.step(&c1, &mut seq, &mut hist, p2, true) {
                w.dfs(&c2, &mut seq, &mut hist);
            }
        }
    }
    ctx.add("cache.sequences", w.nodes);
    ctx.add("states", w.nodes);
    ctx.add("evaluations", w.nodes);
    ctx.add("transitions", w.calls);
    for (i, n) in w.tally.iter().enumerate() {
        if *n > 0 {
            ctx.add(&format!("cache.{}{}", prefix_fill, TALLY_NAMES[i]), *n);
        }
    }
    ctx.distinct_many(w.hashes);
}

fn part_a(ctx: &Ctx, max_len: usize) {
    let cfgs = cache_cfgs(!ctx.quick());
    ctx.set("cache.configs", cfgs.len() as u64);
    let per = (NSYM * NSYM) as u64;
    common::par_for(cfgs.len() as u64 * per, 1, |i| {
        let ci = (i / per) as usize;
        let p = (i % per) as usize;
        run_cache_subtree(ctx, &cfgs[ci], ci as u64, p / NSYM, p % NSYM, max_len, "");
    });
}

fn replay_cache(ctx: &Ctx, f: &BTreeMap<String, String>) -> String {
    let size: usize = f.get("size").and_then(|s| s.parse().ok()).unwrap_or(1);
    let pattern: Vec<usize> = f
        .get("pat")
        .map(|p| {
            p.chars()
                .filter_map(|c| c.to_digit(10).map(|d| d as usize))
                .collect()
        })
        .unwrap_or_else(|| vec![0; NADDR]);
    let cfg = CacheCfg {
        size,
        pattern,
        cutoff: f.get("cutoff").and_then(|s| s.parse().ok()).unwrap_or(10),
        unit_ns: f
            .get("unit")
            .and_then(|s| s.parse().ok())
            .unwrap_or(1_000_000_000),
    };
    if cfg.pattern.len() != NADDR {
        return "bad pattern".into();
    }
    let mut cache = Cache::new(cfg.size);
    let Some(addrs) = realise(&cfg.pattern, |a| cache.slot(a), (0..4096).map(pool_addr)) else {
        return "pattern not realisable".into();
    };
    let slots: Vec<Option<usize>> = addrs.iter().map(|a| cache.slot(a)).collect();
    let base = Instant::now();
    let mut hist: Vec<(usize, u64)> = Vec::new();
    let mut obs = Vec::new();
    for item in f
        .get("seq")
        .map(|s| s.as_str())
        .unwrap_or("")
        .split(',')
        .filter(|s| !s.is_empty())
    {
        let Some((a, d)) = item.split_once('+') else {
            return format!("bad item {item}");
        };
        let a = (a.as_bytes()[0] - b'a') as usize;
        let d: u64 = d.parse().unwrap_or(0);
        let t = hist.last().map(|h| h.1).unwrap_or(0) + d;
        hist.push((a, t));
        let got = cache.is_allowed(
            addrs[a],
            base + Duration::from_nanos(t * cfg.unit_ns),
            Duration::from_nanos(cfg.cutoff * cfg.unit_ns),
        );
        let want = want_cache(cfg.size, cfg.cutoff, &slots, &hist);
        match (want, got) {
            (Want::MustLimit, true) => {
                ctx.violation("C20:not-limited-within-cutoff", "replay", "replay")
            }
            (Want::MustAllow, false) => {
                ctx.violation("C20:limited-without-recent-own-request", "replay", "replay")
            }
            _ => {}
        }
        obs.push(format!(
            "{item}:{}(ref {want:?})",
            if got { "allowed" } else { "limited" }
        ));
    }
    // slots are reported as a sharing pattern (the numeric slot depends on the hash seed)
    let shape: Vec<usize> = slots
        .iter()
        .map(|s| slots.iter().position(|x| x == s).unwrap())
        .collect();
    format!("sharing={shape:?} {}", obs.join(" "))
}

// ---------------------------------------------------------------------------------
// Part B: the server
// ---------------------------------------------------------------------------------

const CLIENTS: [&str; 5] = ["X1", "X2", "X3", "Y", "Z"];
const SRV_DGRAMS: [&str; 5] = [
    "v4.plain.m3",
    "v4.nts.ok.m3",
    "v4.nts.badtag.m3",
    "v4.plain.m4",
    "garbage-ff48",
];

#[derive(Clone)]
struct SrvCfg {
    policy: Policy,
    pattern: Vec<usize>,
}

impl SrvCfg {
    fn trace(&self) -> String {
        format!(
            "srv;da={};aa={};cs={};co={};pat={}",
            if self.policy.deny_act == Act::Ignore {
                'i'
            } else {
                'd'
            },
            if self.policy.allow_act == Act::Ignore {
                'i'
            } else {
                'd'
            },
            self.policy.cache_size,
            self.policy.cutoff.as_secs(),
            self.pattern
                .iter()
                .map(|b| b.to_string())
                .collect::<String>(),
        )
    }
}

fn srv_policy(da: Act, aa: Act, cache_size: usize, cutoff_s: u64) -> Policy {
    Policy {
        deny_name: "c20-deny",
        deny: vec![("10.66.0.0".parse().unwrap(), 16)],
        deny_act: da,
        allow_name: "c20-allow",
        allow: vec![
            ("10.1.0.0".parse().unwrap(), 16),
            ("10.66.0.0".parse().unwrap(), 16),
            ("2001:db8:1:2::".parse().unwrap(), 64),
        ],
        allow_act: aa,
        require_nts: None,
        versions: 0b010,
        cache_size,
        cutoff: Duration::from_secs(cutoff_s),
    }
}

fn srv_cfgs(thorough: bool) -> Vec<SrvCfg> {
    let mut v = Vec::new();
    let sizes: &[usize] = if thorough {
        &[0, 1, 2, 3, 32]
    } else {
        &[0, 1, 2, 32]
    };
    for &size in sizes {
        for pattern in partitions(3, if size >= 3 { 3 } else { size }) {
            for cutoff in [0u64, 3600] {
                for da in [Act::Ignore, Act::Deny] {
                    for aa in [Act::Ignore, Act::Deny] {
                        v.push(SrvCfg {
                            policy: srv_policy(da, aa, size, cutoff),
                            pattern: pattern.clone(),
                        });
                    }
                }
            }
        }
    }
    v
}

/// Pick X1..X3 (passing), Y (deny-listed) and Z (not on the allow list) for THIS server
/// instance: X's realise the sharing pattern; Y and Z hash into X1's slot.
fn srv_clients(
    cfg: &SrvCfg,
    server: &crate::server::Server<c15::MockClock>,
) -> Option<[IpAddr; 5]> {
    let xs_pool = (0u32..65536).map(|i| {
        if i % 2 == 0 {
            IpAddr::V4(Ipv4Addr::new(10, 1, (i >> 9) as u8, (i >> 1) as u8))
        } else {
            IpAddr::V6(Ipv6Addr::new(
                0x2001,
                0xdb8,
                1,
                2,
                0,
                0,
                (i >> 17) as u16,
                (i >> 1) as u16,
            ))
        }
    });
    let xs = realise(&cfg.pattern, |a| server_slot(server, a), xs_pool)?;
    let s1 = server_slot(server, &xs[0]);
    let y = (0u32..65536)
        .map(|i| IpAddr::V4(Ipv4Addr::new(10, 66, (i >> 8) as u8, i as u8)))
        .find(|a| server_slot(server, a) == s1)?;
    let z = (0u32..65536)
        .map(|i| IpAddr::V4(Ipv4Addr::new(192, 0, (i >> 8) as u8, i as u8)))
        .find(|a| server_slot(server, a) == s1)?;
    Some([xs[0], xs[1], xs[2], y, z])
}

struct SrvStep {
    ans: Ans,
    regs: Vec<c15::Reg>,
    want: Want,
    passes: bool,
}

/// Run one sequence on a fresh server; returns per step observation + reference.
fn run_srv_seq(
    cfg: &SrvCfg,
    keys: &Keys,
    dgrams: &[Dgram],
    seq: &[(usize, usize)],
) -> Result<(Vec<SrvStep>, Vec<usize>), String> {
    let (mut server, _clock) = cfg.policy.server(keys);
    let clients = srv_clients(cfg, &server)
        .ok_or_else(|| "machinery: could not pick clients for the slot pattern".to_string())?;
    let slots: Vec<Option<usize>> = clients.iter().map(|a| server_slot(&server, a)).collect();
    let shape: Vec<usize> = slots
        .iter()
        .map(|s| slots.iter().position(|x| x == s).unwrap())
        .collect();
    let mut buf = vec![0u8; 1024];
    let mut out = Vec::new();
    // history of list-passing requests only: (client index)
    let mut passed: Vec<usize> = Vec::new();
    for (c, d) in seq {
        let addr = clients[*c];
        let dg = &dgrams[*d];
        let o = c15::run_handle(&mut server, addr, &dg.bytes, &mut buf);
        if let Some(p) = o.panic {
            return Err(format!("panic: {p}"));
        }
        let passes = *c < 3; // by construction of the lists: X1..X3 pass, Y is denied, Z is unlisted
        let want = if !passes {
            Want::MustAllow // never passed the lists -> can never be rate limited
        } else {
            let w = if cfg.policy.cache_size == 0 || cfg.policy.cutoff == Duration::ZERO {
                Want::MustAllow
            } else {
                match passed.iter().rposition(|x| x == c) {
                    None => Want::MustAllow,
                    Some(j) => {
                        if passed[j + 1..]
                            .iter()
                            .any(|x| x != c && slots[*x] == slots[*c])
                        {
                            Want::Unspecified
                        } else {
                            Want::MustLimit
                        }
                    }
                }
            };
            passed.push(*c);
            w
        };
        out.push(SrvStep {
            ans: c15::classify(o.resp.as_deref(), dg.version).ans,
            regs: o.regs,
            want,
            passes,
        });
    }
    Ok((out, shape))
}

fn srv_seq_text(seq: &[(usize, usize)]) -> String {
    seq.iter()
        .map(|(c, d)| format!("{}:{}", CLIENTS[*c], SRV_DGRAMS[*d]))
        .collect::<Vec<_>>()
        .join(",")
}

fn judge_srv(
    ctx: &Ctx,
    cfg: &SrvCfg,
    seq: &[(usize, usize)],
    steps: &[SrvStep],
    tally: &mut BTreeMap<String, u64>,
) {
    let trace = || format!("{};seq={}", cfg.trace(), srv_seq_text(seq));
    for (i, st) in steps.iter().enumerate() {
        let (c, d) = seq[i];
        let limited = st.regs.iter().any(|r| r.2 == ServerReason::RateLimit);
        let key = format!(
            "srv.{}.{}",
            match st.want {
                Want::MustLimit => "must-limit",
                Want::MustAllow =>
                    if st.passes {
                        "must-allow"
                    } else {
                        "not-listed"
                    },
                Want::Unspecified => "unspecified",
            },
            if limited { "limited" } else { st.ans.tag() }
        );
        *tally.entry(key).or_insert(0) += 1;
        match st.want {
            Want::MustLimit => {
                if !limited || st.ans != Ans::None {
                    ctx.violation(
                        "C20:server-not-limited-within-cutoff",
                        format!(
                            "step {i}: {} repeats within the cutoff (no other passing client used its slot) but got {} / {:?}",
                            CLIENTS[c], st.ans.tag(), st.regs
                        ),
                        trace(),
                    );
                }
            }
            Want::MustAllow => {
                if limited {
                    ctx.violation(
                        if cfg.policy.cache_size == 0 {
                            "C20:size0-limited"
                        } else if !st.passes {
                            "C20:unlisted-client-rate-limited"
                        } else {
                            "C20:server-limited-without-recent-own-request"
                        },
                        format!("step {i}: {} was rate limited ({:?}) without an own list-passing request within the cutoff", CLIENTS[c], st.regs),
                        trace(),
                    );
                } else if st.passes && (d == 0 || d == 1) && st.ans != Ans::Time {
                    // a passing, not rate-limited client with a valid request receives time
                    ctx.violation(
                        "C20:unlimited-client-no-time",
                        format!(
                            "step {i}: {} is not rate limited, sent {} but got {} / {:?}",
                            CLIENTS[c],
                            SRV_DGRAMS[d],
                            st.ans.tag(),
                            st.regs
                        ),
                        trace(),
                    );
                }
            }
            Want::Unspecified => {}
        }
    }
}

fn part_b(ctx: &Ctx, keys: &Keys, max_len: usize) {
    let alpha = c15::alphabet(keys);
    let dgrams: Vec<Dgram> = SRV_DGRAMS
        .iter()
        .map(|n| {
            alpha
                .iter()
                .find(|d| d.name == *n)
                .expect("datagram name")
                .clone()
        })
        .collect();
    let cfgs = srv_cfgs(!ctx.quick());
    ctx.set("srv.configs", cfgs.len() as u64);
    let nsym = CLIENTS.len() * SRV_DGRAMS.len();
    // all sequences of exactly max_len (every shorter sequence is a prefix of one of them
    // and every step of a sequence is judged, so prefixes are covered)
    let nseq = common::pow(nsym, max_len);
    struct Local<'a> {
        ctx: &'a Ctx,
        tally: BTreeMap<String, u64>,
        steps: u64,
        seqs: u64,
        hashes: Vec<u64>,
    }
    impl Drop for Local<'_> {
        fn drop(&mut self) {
            for (k, n) in &self.tally {
                self.ctx.add(k, *n);
            }
            self.ctx.add("transitions", self.steps);
            self.ctx.add("evaluations", self.steps);
            self.ctx.add("srv.sequences", self.seqs);
            self.ctx.add("states", self.seqs);
            self.ctx.distinct_many(std::mem::take(&mut self.hashes));
        }
    }
    common::par_for_with(
        cfgs.len() as u64 * nseq,
        512,
        || Local {
            ctx,
            tally: BTreeMap::new(),
            steps: 0,
            seqs: 0,
            hashes: Vec::new(),
        },
        |loc, i| {
            let ci = (i / nseq) as usize;
            let word = common::word_of(i % nseq, nsym, max_len);
            let seq: Vec<(usize, usize)> = word
                .iter()
                .map(|s| (s / SRV_DGRAMS.len(), s % SRV_DGRAMS.len()))
                .collect();
            let cfg = &cfgs[ci];
            match run_srv_seq(cfg, keys, &dgrams, &seq) {
                Ok((steps, _shape)) => {
                    judge_srv(ctx, cfg, &seq, &steps, &mut loc.tally);
                    loc.steps += seq.len() as u64;
                    loc.seqs += 1;
                    if steps.iter().any(|s| s.want != Want::MustAllow) {
                        loc.hashes.push(common::hash_of(&("srv", ci, &word)));
                    }
                    if i % 250_007 == 11 {
                        ctx.sample(format!(
                            "{};seq={} -> {}",
                            cfg.trace(),
                            srv_seq_text(&seq),
                            steps
                                .iter()
                                .map(
                                    |s| if s.regs.iter().any(|r| r.2 == ServerReason::RateLimit) {
                                        "limited"
                                    } else {
                                        s.ans.tag()
                                    }
                                )
                                .collect::<Vec<_>>()
                                .join(",")
                        ));
                    }
                }
                Err(e) => {
                    if e.starts_with("machinery") {
                        ctx.cap_hit(&e);
                    } else {
                        ctx.violation(
                            "C20:server-panic",
                            e,
                            format!("{};seq={}", cfg.trace(), srv_seq_text(&seq)),
                        );
                    }
                }
            }
        },
    );
}

fn replay_srv(ctx: &Ctx, f: &BTreeMap<String, String>) -> String {
    let keys = Keys::new();
    let act = |k: &str| {
        if f.get(k).map(|s| s.as_str()) == Some("d") {
            Act::Deny
        } else {
            Act::Ignore
        }
    };
    let cfg = SrvCfg {
        policy: srv_policy(
            act("da"),
            act("aa"),
            f.get("cs").and_then(|s| s.parse().ok()).unwrap_or(1),
            f.get("co").and_then(|s| s.parse().ok()).unwrap_or(3600),
        ),
        pattern: f
            .get("pat")
            .map(|p| {
                p.chars()
                    .filter_map(|c| c.to_digit(10).map(|d| d as usize))
                    .collect()
            })
            .unwrap_or_else(|| vec![0, 0, 0]),
    };
    if cfg.pattern.len() != 3 {
        return "bad pattern".into();
    }
    let mut seq = Vec::new();
    for item in f
        .get("seq")
        .map(|s| s.as_str())
        .unwrap_or("")
        .split(',')
        .filter(|s| !s.is_empty())
    {
        let Some((c, d)) = item.split_once(':') else {
            return format!("bad item {item}");
        };
        let (Some(c), Some(d)) = (
            CLIENTS.iter().position(|x| *x == c),
            SRV_DGRAMS.iter().position(|x| *x == d),
        ) else {
            return format!("unknown item {item}");
        };
        seq.push((c, d));
    }
    let alpha = c15::alphabet(&keys);
    let dgrams: Vec<Dgram> = SRV_DGRAMS
        .iter()
        .map(|n| {
            alpha
                .iter()
                .find(|d| d.name == *n)
                .expect("datagram name")
                .clone()
        })
        .collect();
    match run_srv_seq(&cfg, &keys, &dgrams, &seq) {
        Ok((steps, shape)) => {
            let mut tally = BTreeMap::new();
            judge_srv(ctx, &cfg, &seq, &steps, &mut tally);
            format!(
                "sharing(X1,X2,X3,Y,Z)={shape:?} {}",
                steps
                    .iter()
                    .enumerate()
                    .map(|(i, s)| format!(
                        "{}:{}->{}{:?}(ref {:?})",
                        CLIENTS[seq[i].0],
                        SRV_DGRAMS[seq[i].1],
                        s.ans.tag(),
                        s.regs,
                        s.want
                    ))
                    .collect::<Vec<_>>()
                    .join(" ")
            )
        }
        Err(e) => e,
    }
}

fn replay(ctx: &Ctx, trace: &str) -> String {
    let f = c15::parse_fields(trace);
    if trace.starts_with("srv") {
        replay_srv(ctx, &f)
    } else {
        replay_cache(ctx, &f)
    }
}

#[test]
fn check() {
    let ctx = Ctx::new("C20");
    if let Some(t) = common::replay_trace() {
        let a = replay(&ctx, &t);
        let b = replay(&ctx, &t);
        common::report_replay("C20", &a, &b, ctx.violation_count() > 0);
        return;
    }
    let (la, lb) = if ctx.quick() { (5, 3) } else { (7, 4) };
    ctx.rule(&format!(
        "Part A: every sequence of length <= {la} over (address in {{a,b,c}}) x (delta-t in {{0,9,10,11}}) applied to the real \
         TimestampedCache (depth-first on forks of the cache), for cache size 0..3 x cutoff {{0,10}} x every set partition of the \
         three addresses into <= size slots (addresses are picked by their observed slot in each cache instance){}. \
         Part B: every sequence of length <= {lb} over 5 clients (3 passing the lists, 1 deny-listed, 1 not on the allow list; the \
         latter two hash into the first passing client's slot) x 5 datagrams (plain, NTS, undecryptable NTS, non-client mode, \
         garbage) on Server::handle, for cache size {{0,1,2,32}} (thorough: + 3) x cutoff {{0, 1 h}} x every sharing pattern x deny/allow actions. \
         Distinct & non-trivial = a sequence with at least one step that has an own previous request (Part A: counted up to length 4 \
         only) / at least one step whose reference is not 'must allow' (Part B).",
        if ctx.quick() { "" } else { " x time unit {1 s, 1 ns}" }
    ));
    ctx.assume("arrival instants are non-decreasing (std::time::Instant is monotonic)");
    ctx.assume("a rate-limited request is itself a request that passed the access lists (it refreshes the client's own time stamp)");
    ctx.assume("when another address used the slot in between, the statement allows both outcomes; those cases are counted, not judged");
    ctx.assume(
        "Server level: real time between two handle calls of one sequence is >= 0 and < 1 h",
    );
    ctx.assume("addresses that do not pass the access lists do not 'use' a cache slot");
    let keys = Keys::new();
    part_a(&ctx, la);
    ctx.set("cache.max_len", la as u64);
    part_b(&ctx, &keys, lb);
    ctx.set("srv.max_len", lb as u64);
    ctx.exhaustive(true);
    ctx.finish();
}
