//! C20: not implemented yet.
