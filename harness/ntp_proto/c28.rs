//! C28: not implemented yet.
