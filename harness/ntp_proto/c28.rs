//! C28 — NTS key exchange negotiates only mutually supported parameters.
//!
//! Engine E-IN: exhaustive enumeration of configurations / request lists / scripted
//! responses, every case one REAL TLS 1.3 session (rustls at both ends over
//! `tokio::io::duplex`, PKI from `ntp-proto/test-keys`, exactly the rig of the crate's
//! own KE tests).
//!
//! Part A  real `KeyExchangeClient` (every `ProtocolVersion` configuration) against the
//!         real `KeyExchangeServer` (every ordered list without repetition over
//!         {V3,V4,V5} as `accepted_versions`).
//! Part B  harness TLS client sending a raw KE request whose next-protocol list is any
//!         arrangement (ordered subset) of {NTPv4, draft-NTPv5, unknown[, unknown2]} and
//!         whose AEAD list is any arrangement of {SIV-256, SIV-512, unknown[, unknown2]},
//!         both record orders, against every server list. The harness owns the client end
//!         of the TLS session, so it exports the RFC 8915 keys itself (own context
//!         construction) and compares them with the keys inside the 8 cookies.
//! Part C  real client (every configuration) against a harness TLS server that reads the
//!         request (what was really offered, taken from the wire) and answers a scripted
//!         response naming offered / unoffered / unknown / multiple / no protocol and
//!         algorithm with 0/1/8/9 cookies; the harness owns the server end and exports
//!         the keys itself.
//!
//! Oracle (from the statement): server choice = first entry of the client's protocol list
//! that is in the accepted set, first entry of the client's algorithm list the server
//! supports (SIV-256, SIV-512); exactly 8 cookies, each decoding under the server key set
//! to the exported keys for exactly that pair; no cookies without a common protocol and
//! algorithm; the client's result names only offered parameters and carries the same
//! keys as the other end's export.
use std::borrow::Cow;
use std::sync::Arc;

use tokio::io::{AsyncReadExt, AsyncWriteExt};

use super::common::{self, Ctx};
use crate::generic::NtpVersion;
use crate::keyset::{KeySet, KeySetProvider};
use crate::nts::verif_probe::gj::{self as rig, Rec};
use crate::nts::{KeyExchangeClient, KeyExchangeServer};
use crate::source::ProtocolVersion;

const P4: u16 = 0;
const P5: u16 = 0x8001;
const PU: u16 = 0x1234;
const PU2: u16 = 0x7fff;
const A256: u16 = 15;
const A512: u16 = 17;
const AU: u16 = 99;
const AU2: u16 = 0xffff;

fn arrangements<T: Copy + PartialEq>(syms: &[T]) -> Vec<Vec<T>> {
    fn rec<T: Copy + PartialEq>(syms: &[T], cur: &mut Vec<T>, out: &mut Vec<Vec<T>>) {
        out.push(cur.clone());
        for s in syms {
            if !cur.contains(s) {
                cur.push(*s);
                rec(syms, cur, out);
                cur.pop();
            }
        }
    }
    let mut out = Vec::new();
    rec(syms, &mut Vec::new(), &mut out);
    out
}

fn versions_str(v: &[NtpVersion]) -> String {
    v.iter()
        .map(|x| x.as_u8().to_string())
        .collect::<Vec<_>>()
        .join(",")
}

fn parse_versions(s: &str) -> Vec<NtpVersion> {
    s.split(',')
        .filter(|x| !x.is_empty())
        .filter_map(|x| x.parse::<u8>().ok())
        .filter_map(|x| NtpVersion::try_from(x).ok())
        .collect()
}

/// Statement-level meaning of the server configuration: the set of next-protocol ids accepted.
fn accepted_ids(v: &[NtpVersion]) -> Vec<u16> {
    let mut out = Vec::new();
    for x in v {
        match x {
            NtpVersion::V3 => {}
            NtpVersion::V4 => out.push(P4),
            NtpVersion::V5 => out.push(P5),
        }
    }
    out
}

const PVS: [(&str, ProtocolVersion); 4] = [
    ("V4", ProtocolVersion::V4),
    ("V5", ProtocolVersion::V5),
    (
        "V4UpgradingToV5",
        ProtocolVersion::V4UpgradingToV5 { tries_left: 8 },
    ),
    ("UpgradedToV5", ProtocolVersion::UpgradedToV5),
];

/// Statement-level meaning of the client configuration: what it may offer, in order.
fn offer_of(pv: &str) -> Vec<u16> {
    match pv {
        "V4" => vec![P4],
        "V5" => vec![P5],
        _ => vec![P5, P4],
    }
}

fn pv_by_name(name: &str) -> Option<ProtocolVersion> {
    PVS.iter().find(|(n, _)| *n == name).map(|(_, p)| *p)
}

fn pv_id(pv: ProtocolVersion) -> u16 {
    match pv {
        ProtocolVersion::V4 => P4,
        ProtocolVersion::V5 => P5,
        // the client never reports these; map them to something that is never offered
        _ => 0xeeee,
    }
}

fn keyset() -> Arc<KeySet> {
    // a key set with history, primary != 0
    let mut p = KeySetProvider::new(2);
    p.rotate();
    p.rotate();
    p.rotate();
    p.get()
}

fn rt() -> tokio::runtime::Runtime {
    tokio::runtime::Builder::new_current_thread()
        .enable_time()
        .start_paused(true)
        .build()
        .expect("runtime")
}

const HANG: std::time::Duration = std::time::Duration::from_secs(3600);

struct Decoded {
    alg: u16,
    c2s: Vec<u8>,
    s2c: Vec<u8>,
}

fn decode(ks: &KeySet, cookie: &[u8]) -> Option<Decoded> {
    let d = ks.decode_cookie(cookie).ok()?;
    Some(Decoded {
        alg: rig::aead_id(d.algorithm),
        c2s: d.c2s.key_bytes().to_vec(),
        s2c: d.s2c.key_bytes().to_vec(),
    })
}

fn alg_of_keylen(n: usize) -> u16 {
    match n {
        32 => A256,
        64 => A512,
        _ => 0xeeee,
    }
}

// ------------------------------------------------------------------ part A

fn run_a(ctx: &Ctx, rt: &tokio::runtime::Runtime, pvname: &str, versions: &[NtpVersion]) -> String {
    let trace = format!("A;{pvname};{}", versions_str(versions));
    let Some(pv) = pv_by_name(pvname) else {
        return "bad trace".into();
    };
    let ks = keyset();
    let r = common::catch(|| {
        rt.block_on(async {
            let client = rig::client(pv);
            let kex = rig::server(versions.to_vec(), vec![]);
            let offered = rig::client_offer(&client);
            let (c, s) = tokio::io::duplex(4096);
            let cf = client.exchange_keys(c, "localhost".into(), Vec::<Cow<'static, str>>::new());
            let sf = kex.handle_connection(s, &ks, || None::<()>);
            let both = tokio::time::timeout(HANG, async { tokio::join!(cf, sf) }).await;
            (offered, both)
        })
    });
    ctx.inc("transitions");
    ctx.inc("sessions_real_client_real_server");
    let (offered, both) = match r {
        Ok(v) => v,
        Err(e) => {
            ctx.violation("C28:panic", format!("key exchange panicked: {e}"), trace);
            return format!("panic {e}");
        }
    };
    let Ok((cres, sres)) = both else {
        ctx.violation(
            "C28:hang",
            "client and server both idle for an hour of virtual time",
            trace,
        );
        return "hang".into();
    };
    let want_offer = offer_of(pvname);
    if offered.0 != want_offer || offered.1 != vec![A512, A256] {
        ctx.violation(
            "C28:client-offer-unexpected",
            format!(
                "client configured {pvname} offers protocols {:04x?} algorithms {:?}",
                offered.0, offered.1
            ),
            trace.clone(),
        );
    }
    let acc = accepted_ids(versions);
    let want_p = want_offer.iter().copied().find(|p| acc.contains(p));
    let want_a = A512; // first of the client's list [512, 256] the server supports
    let sdesc = match &sres {
        Ok(None) => "Ok".to_string(),
        Ok(Some(_)) => "Kept".to_string(),
        Err(e) => format!("Err({})", rig::err_name(e)),
    };
    match (want_p, cres) {
        (None, Ok(res)) => {
            ctx.violation(
                "C28:negotiated-without-overlap",
                format!("client {pvname} vs server [{}]: client obtained {:?} although no protocol is common", versions_str(versions), res.protocol_version),
                trace,
            );
            format!("client=Ok({:?}) server={sdesc}", res.protocol_version)
        }
        (None, Err(e)) => {
            ctx.inc("a_no_common_protocol");
            if sres.is_ok() {
                ctx.violation(
                    "C28:server-ok-without-overlap",
                    "server reports success without a common protocol",
                    trace,
                );
            }
            format!("client=Err({}) server={sdesc}", rig::err_name(&e))
        }
        (Some(p), Err(e)) => {
            ctx.violation(
                "C28:exchange-failed",
                format!("client {pvname} vs server [{}]: common protocol {p:#06x} exists but the client got {}", versions_str(versions), rig::err_name(&e)),
                trace,
            );
            format!("client=Err({}) server={sdesc}", rig::err_name(&e))
        }
        (Some(p), Ok(mut res)) => {
            let got_p = pv_id(res.protocol_version);
            let c2s = res.nts.c2s.key_bytes().to_vec();
            let s2c = res.nts.s2c.key_bytes().to_vec();
            let got_a = alg_of_keylen(c2s.len());
            if got_p != p {
                ctx.violation(
                    "C28:wrong-protocol-selected",
                    format!("client list {want_offer:04x?}, server accepts {acc:04x?}: first acceptable is {p:#06x}, negotiated {got_p:#06x}"),
                    trace.clone(),
                );
            }
            if got_a != want_a || s2c.len() != c2s.len() {
                ctx.violation(
                    "C28:wrong-algorithm-selected",
                    format!(
                        "client list [17,15]: first supported is 17, negotiated key lengths {}/{}",
                        c2s.len(),
                        s2c.len()
                    ),
                    trace.clone(),
                );
            }
            if c2s == s2c {
                ctx.violation(
                    "C28:keys-not-directional",
                    "c2s key equals s2c key",
                    trace.clone(),
                );
            }
            let mut n = 0;
            let mut ok = 0;
            while let Some(cookie) = res.nts.get_cookie() {
                n += 1;
                match decode(&ks, &cookie) {
                    Some(d) if d.alg == got_a && d.c2s == c2s && d.s2c == s2c => ok += 1,
                    Some(d) => ctx.violation(
                        "C28:cookie-keys-differ",
                        format!("cookie {n} decodes to algorithm {} / keys that differ from the client's keys", d.alg),
                        trace.clone(),
                    ),
                    None => ctx.violation("C28:cookie-undecodable", format!("cookie {n} does not decode under the server key set"), trace.clone()),
                }
            }
            if n != 8 {
                ctx.violation(
                    "C28:cookie-count",
                    format!("client holds {n} cookies, expected 8"),
                    trace.clone(),
                );
            }
            if sres.is_err() {
                ctx.violation(
                    "C28:server-error-on-success",
                    format!("server returned {sdesc} for a successful exchange"),
                    trace.clone(),
                );
            }
            ctx.add("cookies_decoded", ok);
            ctx.inc(if got_p == P4 {
                "a_negotiated_v4"
            } else {
                "a_negotiated_v5"
            });
            ctx.distinct(common::hash_of(&("A", pvname, versions_str(versions))));
            format!(
                "client=Ok({:?},alg={got_a},cookies={n},decoded_equal={ok}) server={sdesc}",
                res.protocol_version
            )
        }
    }
}

// ------------------------------------------------------------------ part B

fn ke_request(protos: &[u16], algs: &[u16], aead_first: bool) -> Vec<u8> {
    let p = Rec::new(0x8001, &rig::u16s_body(protos));
    let a = Rec::new(0x8004, &rig::u16s_body(algs));
    let eom = Rec::new(0x8000, &[]);
    if aead_first {
        rig::enc(&[a, p, eom])
    } else {
        rig::enc(&[p, a, eom])
    }
}

fn run_b(
    ctx: &Ctx,
    rt: &tokio::runtime::Runtime,
    connector: &tokio_rustls::TlsConnector,
    kex: &KeyExchangeServer,
    ks: &KeySet,
    versions: &[NtpVersion],
    request: &[u8],
) -> String {
    let trace = format!("B;{};{}", versions_str(versions), common::hex(request));
    let r = common::catch(|| {
        rt.block_on(async {
            let (c, s) = tokio::io::duplex(4096);
            let cf = async {
                let mut tls = connector
                    .connect(rig::localhost(), c)
                    .await
                    .map_err(|e| format!("connect: {e}"))?;
                tls.write_all(request)
                    .await
                    .map_err(|e| format!("write: {e}"))?;
                tls.flush().await.map_err(|e| format!("flush: {e}"))?;
                let mut resp = Vec::new();
                let clean = tls.read_to_end(&mut resp).await.is_ok();
                Ok::<_, String>((tls, resp, clean))
            };
            let sf = kex.handle_connection(s, ks, || None::<()>);
            tokio::time::timeout(HANG, async { tokio::join!(cf, sf) }).await
        })
    });
    ctx.inc("transitions");
    ctx.inc("sessions_raw_client_real_server");
    let both = match r {
        Ok(v) => v,
        Err(e) => {
            ctx.violation("C28:panic", format!("server panicked: {e}"), trace);
            return format!("panic {e}");
        }
    };
    let Ok((cres, sres)) = both else {
        ctx.violation(
            "C28:hang",
            "server idle for an hour of virtual time with the request delivered",
            trace,
        );
        return "hang".into();
    };
    let (tls, resp, clean) = match cres {
        Ok(v) => v,
        Err(e) => {
            ctx.violation("C28:rig", format!("harness TLS client failed: {e}"), trace);
            return format!("rig {e}");
        }
    };
    let sdesc = match &sres {
        Ok(None) => "Ok".to_string(),
        Ok(Some(_)) => "Kept".to_string(),
        Err(e) => format!("Err({})", rig::err_name(e)),
    };
    // what was asked, from the request bytes themselves
    let req = rig::dec(request).unwrap_or_default();
    let protos = req
        .iter()
        .find(|r| r.kind() == 1)
        .and_then(|r| r.u16s())
        .unwrap_or_default();
    let algs = req
        .iter()
        .find(|r| r.kind() == 4)
        .and_then(|r| r.u16s())
        .unwrap_or_default();
    let acc = accepted_ids(versions);
    let want_p = protos.iter().copied().find(|p| acc.contains(p));
    let want_a = algs.iter().copied().find(|a| *a == A256 || *a == A512);

    let Some(recs) = rig::dec(&resp) else {
        ctx.violation(
            "C28:response-framing",
            format!(
                "response is not a whole number of records: {}",
                common::hex(&resp)
            ),
            trace,
        );
        return "bad framing".into();
    };
    let cookies: Vec<&Rec> = recs.iter().filter(|r| r.kind() == 5).collect();
    let rp: Vec<Vec<u16>> = recs
        .iter()
        .filter(|r| r.kind() == 1)
        .filter_map(|r| r.u16s())
        .collect();
    let ra: Vec<Vec<u16>> = recs
        .iter()
        .filter(|r| r.kind() == 4)
        .filter_map(|r| r.u16s())
        .collect();
    let errors = recs.iter().filter(|r| r.kind() == 2).count();
    let obs;
    match (want_p, want_a) {
        (Some(p), Some(a)) => {
            if rp != vec![vec![p]] {
                ctx.violation(
                    "C28:wrong-protocol-selected",
                    format!("client list {protos:04x?}, server accepts {acc:04x?}: first acceptable is {p:#06x}, response names {rp:04x?}"),
                    trace.clone(),
                );
            }
            if ra != vec![vec![a]] {
                ctx.violation(
                    "C28:wrong-algorithm-selected",
                    format!("client list {algs:?}: first supported is {a}, response names {ra:?}"),
                    trace.clone(),
                );
            }
            if cookies.len() != 8 {
                ctx.violation(
                    "C28:cookie-count",
                    format!("{} cookies issued, expected 8", cookies.len()),
                    trace.clone(),
                );
            }
            if errors != 0 || sres.is_err() || !clean {
                ctx.violation(
                    "C28:server-error-on-success",
                    format!("server result {sdesc}, {errors} error records, clean close {clean}"),
                    trace.clone(),
                );
            }
            let exported = rig::export(tls.get_ref().1, p, a);
            let mut ok = 0u64;
            match &exported {
                None => ctx.violation("C28:rig", "harness key export failed", trace.clone()),
                Some((c2s, s2c)) => {
                    for (i, c) in cookies.iter().enumerate() {
                        match decode(ks, &c.body) {
                            Some(d) if d.alg == a && &d.c2s == c2s && &d.s2c == s2c => ok += 1,
                            Some(d) => {
                                // say which export it is, if any, to make the report useful
                                let mut which = "no export of this session".to_string();
                                for pp in [P4, P5, PU, PU2] {
                                    for aa in [A256, A512] {
                                        if let Some((x, y)) = rig::export(tls.get_ref().1, pp, aa) {
                                            if x == d.c2s && y == d.s2c {
                                                which = format!(
                                                    "the export for protocol {pp:#06x} algorithm {aa}"
                                                );
                                            } else if y == d.c2s && x == d.s2c {
                                                which = format!(
                                                    "the export for protocol {pp:#06x} algorithm {aa} with c2s/s2c swapped"
                                                );
                                            }
                                        }
                                    }
                                }
                                ctx.violation(
                                    "C28:cookie-keys-not-exported-keys",
                                    format!("cookie {i} (algorithm {}) does not hold the keys exported for protocol {p:#06x} algorithm {a}; it holds {which}", d.alg),
                                    trace.clone(),
                                );
                            }
                            None => ctx.violation(
                                "C28:cookie-undecodable",
                                format!("cookie {i} does not decode under the server key set"),
                                trace.clone(),
                            ),
                        }
                    }
                }
            }
            let distinct: std::collections::BTreeSet<&Vec<u8>> =
                cookies.iter().map(|c| &c.body).collect();
            ctx.add("cookies_decoded", ok);
            ctx.inc(if p == P4 {
                "b_selected_v4"
            } else {
                "b_selected_v5"
            });
            ctx.inc(if a == A256 {
                "b_selected_siv256"
            } else {
                "b_selected_siv512"
            });
            if protos.first() != Some(&p) {
                ctx.inc("b_selected_protocol_not_first_in_list");
            }
            if algs.first() != Some(&a) {
                ctx.inc("b_selected_algorithm_not_first_in_list");
            }
            ctx.distinct(common::hash_of(&("B", versions_str(versions), request)));
            obs = format!(
                "select p={p:#06x} a={a}: response p={rp:04x?} a={ra:?} cookies={} distinct={} decoded_equal_export={ok} server={sdesc}",
                cookies.len(),
                distinct.len()
            );
        }
        _ => {
            // no common protocol or no common algorithm: nothing may be issued
            if !cookies.is_empty() {
                ctx.violation(
                    "C28:cookies-without-overlap",
                    format!("client lists {protos:04x?}/{algs:?}, server accepts {acc:04x?}: {} cookies issued", cookies.len()),
                    trace.clone(),
                );
            }
            if rp
                .iter()
                .any(|l| l.iter().any(|p| !protos.contains(p) || !acc.contains(p)))
            {
                ctx.violation("C28:wrong-protocol-selected", format!("response names protocol {rp:04x?} not common to {protos:04x?} and {acc:04x?}"), trace.clone());
            }
            if ra.iter().any(|l| !l.is_empty()) && want_a.is_none() {
                ctx.violation(
                    "C28:wrong-algorithm-selected",
                    format!("response names algorithm {ra:?}, client offered {algs:?}"),
                    trace.clone(),
                );
            }
            if sres.is_ok() {
                ctx.violation(
                    "C28:server-ok-without-overlap",
                    "server reports success without common parameters",
                    trace.clone(),
                );
            }
            ctx.inc(if want_p.is_none() {
                "b_no_common_protocol"
            } else {
                "b_no_common_algorithm"
            });
            obs = format!(
                "no overlap (p={want_p:04x?} a={want_a:?}): response p={rp:04x?} a={ra:?} cookies={} errors={errors} server={sdesc}",
                cookies.len()
            );
        }
    }
    obs
}

// ------------------------------------------------------------------ part C

/// `shape`: 0 plain, 1 + server and port records, 2 AEAD record before the next-protocol
/// record, 3 + an unknown non-critical record up front, 4 + keep-alive record.
fn scripted_response(protos: &[u16], algs: &[u16], ncookies: usize, shape: u8) -> Vec<u8> {
    let p = Rec::new(0x8001, &rig::u16s_body(protos));
    let a = Rec::new(0x8004, &rig::u16s_body(algs));
    let mut recs = Vec::new();
    if shape == 3 {
        recs.push(Rec::new(0x0123, &[9, 9, 9]));
    }
    if shape == 2 {
        recs.push(a);
        recs.push(p);
    } else {
        recs.push(p);
        recs.push(a);
    }
    for i in 0..ncookies {
        recs.push(Rec::new(5, &vec![i as u8 + 1; 100]));
    }
    if shape == 1 {
        recs.push(Rec::new(0x8006, b"ntp.example.org"));
        recs.push(Rec::new(0x8007, &4123u16.to_be_bytes()));
    }
    if shape == 4 {
        recs.push(Rec::new(8, &[]));
    }
    recs.push(Rec::new(0x8000, &[]));
    rig::enc(&recs)
}

fn run_c(
    ctx: &Ctx,
    rt: &tokio::runtime::Runtime,
    acceptor: &tokio_rustls::TlsAcceptor,
    pvname: &str,
    response: &[u8],
) -> String {
    let trace = format!("C;{pvname};{}", common::hex(response));
    let Some(pv) = pv_by_name(pvname) else {
        return "bad trace".into();
    };
    let r = common::catch(|| {
        rt.block_on(async {
            let client = rig::client(pv);
            let (c, s) = tokio::io::duplex(4096);
            let cf = client.exchange_keys(c, "localhost".into(), Vec::<Cow<'static, str>>::new());
            let sf = async {
                let mut tls = acceptor
                    .accept(s)
                    .await
                    .map_err(|e| format!("accept: {e}"))?;
                let req = rig::read_message(&mut tls)
                    .await
                    .map_err(|(_, e)| format!("request: {e}"))?;
                tls.write_all(response)
                    .await
                    .map_err(|e| format!("write: {e}"))?;
                tls.flush().await.map_err(|e| format!("flush: {e}"))?;
                let _ = tls.shutdown().await;
                Ok::<_, String>((tls, req))
            };
            tokio::time::timeout(HANG, async { tokio::join!(cf, sf) }).await
        })
    });
    ctx.inc("transitions");
    ctx.inc("sessions_real_client_scripted_server");
    let both = match r {
        Ok(v) => v,
        Err(e) => {
            ctx.violation("C28:panic", format!("client panicked: {e}"), trace);
            return format!("panic {e}");
        }
    };
    let Ok((cres, sres)) = both else {
        ctx.violation(
            "C28:hang",
            "client idle for an hour of virtual time with the response delivered",
            trace,
        );
        return "hang".into();
    };
    let (tls, req) = match sres {
        Ok(v) => v,
        Err(e) => {
            ctx.violation("C28:rig", format!("harness TLS server failed: {e}"), trace);
            return format!("rig {e}");
        }
    };
    // the offer as it went over the wire
    let off_p = req
        .iter()
        .find(|r| r.kind() == 1)
        .and_then(|r| r.u16s())
        .unwrap_or_default();
    let off_a = req
        .iter()
        .find(|r| r.kind() == 4)
        .and_then(|r| r.u16s())
        .unwrap_or_default();
    if off_p != offer_of(pvname) {
        ctx.violation(
            "C28:client-offer-unexpected",
            format!("client configured {pvname} sent next-protocol list {off_p:04x?}"),
            trace.clone(),
        );
    }
    let recs = rig::dec(response).unwrap_or_default();
    let rp: Vec<u16> = recs
        .iter()
        .find(|r| r.kind() == 1)
        .and_then(|r| r.u16s())
        .unwrap_or_default();
    let ra: Vec<u16> = recs
        .iter()
        .find(|r| r.kind() == 4)
        .and_then(|r| r.u16s())
        .unwrap_or_default();
    let ncookies = recs.iter().filter(|r| r.kind() == 5).count();
    let valid = rp.len() == 1
        && ra.len() == 1
        && off_p.contains(&rp[0])
        && off_a.contains(&ra[0])
        && (ra[0] == A256 || ra[0] == A512)
        && ncookies >= 1;
    match cres {
        Ok(res) => {
            ctx.inc("c_client_accepts");
            let p = pv_id(res.protocol_version);
            let c2s = res.nts.c2s.key_bytes().to_vec();
            let s2c = res.nts.s2c.key_bytes().to_vec();
            let a = alg_of_keylen(c2s.len());
            let mut bad = false;
            if !off_p.contains(&p) {
                bad = true;
                ctx.violation(
                    "C28:client-adopts-unoffered-protocol",
                    format!("client configured {pvname} offered next-protocol {off_p:04x?}; the response named {rp:04x?} and the client returned Ok with protocol_version {:?}", res.protocol_version),
                    trace.clone(),
                );
            }
            if !off_a.contains(&a) {
                bad = true;
                ctx.violation(
                    "C28:client-adopts-unoffered-algorithm",
                    format!("client offered AEAD {off_a:?}; the response named {ra:?} and the client returned Ok with {}-byte keys", c2s.len()),
                    trace.clone(),
                );
            }
            if rp != vec![p] || ra != vec![a] {
                bad = true;
                ctx.violation(
                    "C28:client-adopts-unnamed",
                    format!("response named protocol {rp:04x?} algorithm {ra:?}; client adopted {p:#06x}/{a}"),
                    trace.clone(),
                );
            }
            match rig::export(tls.get_ref().1, p, a) {
                Some((x, y)) if x == c2s && y == s2c => {
                    ctx.inc("c_client_keys_equal_server_export")
                }
                _ => {
                    bad = true;
                    ctx.violation(
                        "C28:client-keys-differ",
                        format!("client keys are not the server-side export for protocol {p:#06x} algorithm {a}"),
                        trace.clone(),
                    );
                }
            }
            if ncookies == 0 {
                bad = true;
                ctx.violation(
                    "C28:client-accepts-without-cookies",
                    "client returned Ok for a response without cookies",
                    trace.clone(),
                );
            }
            if !bad {
                ctx.distinct(common::hash_of(&("C", pvname, response)));
            }
            format!(
                "offered p={off_p:04x?} a={off_a:?}; response p={rp:04x?} a={ra:?} cookies={ncookies}; client=Ok({:?},alg={a})",
                res.protocol_version
            )
        }
        Err(e) => {
            ctx.inc("c_client_rejects");
            if valid {
                ctx.violation(
                    "C28:client-rejects-valid",
                    format!("response names offered protocol {rp:04x?} and algorithm {ra:?} with {ncookies} cookies but the client failed with {}", rig::err_name(&e)),
                    trace.clone(),
                );
            } else {
                ctx.distinct(common::hash_of(&("C", pvname, response)));
            }
            format!(
                "offered p={off_p:04x?} a={off_a:?}; response p={rp:04x?} a={ra:?} cookies={ncookies}; client=Err({})",
                rig::err_name(&e)
            )
        }
    }
}

// ------------------------------------------------------------------ driver

fn replay(ctx: &Ctx, trace: &str) -> String {
    let parts: Vec<&str> = trace.split(';').collect();
    let rt = rt();
    match parts.as_slice() {
        ["A", pv, versions] => run_a(ctx, &rt, pv, &parse_versions(versions)),
        ["B", versions, hexreq] => {
            let versions = parse_versions(versions);
            let Some(req) = common::unhex(hexreq) else {
                return "bad hex".into();
            };
            let kex = rig::server(versions.clone(), vec![]);
            let ks = keyset();
            run_b(ctx, &rt, &rig::raw_connector(), &kex, &ks, &versions, &req)
        }
        ["C", pv, hexresp] => {
            let Some(resp) = common::unhex(hexresp) else {
                return "bad hex".into();
            };
            run_c(ctx, &rt, &rig::raw_acceptor(), pv, &resp)
        }
        _ => "unknown trace".into(),
    }
}

#[test]
fn check() {
    let ctx = Ctx::new("C28");
    if let Some(t) = common::replay_trace() {
        let a = replay(&ctx, &t);
        let b = replay(&ctx, &t);
        common::report_replay("C28", &a, &b, ctx.violation_count() > 0);
        return;
    }
    let quick = ctx.quick();
    ctx.rule(
        "every case is one real TLS 1.3 key-exchange session. A: 4 client configurations x 16 ordered server version lists over \
         {3,4,5}. B: raw KE requests: every arrangement (ordered subset incl. empty) of {v4,v5,unknown} [thorough: + a 2nd unknown] \
         as next-protocol list x every arrangement of {SIV256,SIV512,unknown} [thorough: + 2nd unknown] as AEAD list x both record \
         orders x 16 server lists. C: 4 client configurations x scripted responses naming protocol list in {[v4],[v5],[unk],[v5,v4],[]} \
         x AEAD list in {[15],[17],[99],[17,15],[]} x cookies in {0,1,8,9} x shape in {plain, +server+port} [thorough: + AEAD-first, + unknown non-critical record, + keep-alive]. Distinct & \
         non-trivial = a session in which parameters were negotiated and all keys/cookies verified (A,B), or a scripted response \
         with a distinct (config, bytes) that the client handled as the statement demands (C).",
    );
    ctx.assume("the TLS exporter (rustls) yields the same bytes at both ends of a session; the harness' own RFC 8915 context construction (protocol id BE || AEAD id BE || 0/1) is the meaning of 'the keys exported for that protocol and algorithm'");
    ctx.assume("KeySet::decode_cookie is the meaning of 'cookie decodes under the server key set' (its own properties are C26/C27)");
    ctx.assume(
        "test-keys/ certificates are valid and verifiable offline, as in the crate's own KE tests",
    );
    ctx.assume("the server supports exactly AEAD 15 (SIV-CMAC-256) and 17 (SIV-CMAC-512); the client's adopted algorithm is observed through its key length (32 / 64 bytes)");

    let server_lists = arrangements(&[NtpVersion::V3, NtpVersion::V4, NtpVersion::V5]);

    // ---- A
    let cases_a: Vec<(usize, usize)> = (0..PVS.len())
        .flat_map(|p| (0..server_lists.len()).map(move |s| (p, s)))
        .collect();
    common::par_for_with(cases_a.len() as u64, 1, rt, |rt, i| {
        let (p, s) = cases_a[i as usize];
        let obs = run_a(&ctx, rt, PVS[p].0, &server_lists[s]);
        ctx.inc("evaluations");
        if i % 13 == 5 {
            ctx.sample(format!(
                "A client {} vs server [{}]: {obs}",
                PVS[p].0,
                versions_str(&server_lists[s])
            ));
        }
    });

    // ---- B
    let (psyms, asyms): (&[u16], &[u16]) = if quick {
        (&[P4, P5, PU], &[A256, A512, AU])
    } else {
        (&[P4, P5, PU, PU2], &[A256, A512, AU, AU2])
    };
    let plists = arrangements(psyms);
    let alists = arrangements(asyms);
    let servers: Vec<KeyExchangeServer> = server_lists
        .iter()
        .map(|v| rig::server(v.clone(), vec![]))
        .collect();
    let ks = keyset();
    let connector = rig::raw_connector();
    let nb = (server_lists.len() * plists.len() * alists.len() * 2) as u64;
    ctx.set("b_protocol_lists", plists.len() as u64);
    ctx.set("b_algorithm_lists", alists.len() as u64);
    common::par_for_with(nb, 16, rt, |rt, i| {
        let mut x = i as usize;
        let order = x % 2;
        x /= 2;
        let ai = x % alists.len();
        x /= alists.len();
        let pi = x % plists.len();
        x /= plists.len();
        let si = x;
        let req = ke_request(&plists[pi], &alists[ai], order == 1);
        let obs = run_b(
            &ctx,
            rt,
            &connector,
            &servers[si],
            &ks,
            &server_lists[si],
            &req,
        );
        ctx.inc("evaluations");
        if i % 1499 == 77 {
            ctx.sample(format!(
                "B server [{}] request p={:04x?} a={:?}: {obs}",
                versions_str(&server_lists[si]),
                plists[pi],
                alists[ai]
            ));
        }
    });

    // ---- C
    let rps: [&[u16]; 5] = [&[P4], &[P5], &[PU], &[P5, P4], &[]];
    let ras: [&[u16]; 5] = [&[A256], &[A512], &[AU], &[A512, A256], &[]];
    let ncs = [0usize, 1, 8, 9];
    let acceptor = rig::raw_acceptor();
    let mut cases_c = Vec::new();
    for p in 0..PVS.len() {
        for rp in rps {
            for ra in ras {
                for nc in ncs {
                    for shape in 0..(if quick { 2u8 } else { 5 }) {
                        cases_c.push((p, scripted_response(rp, ra, nc, shape)));
                    }
                }
            }
        }
    }
    common::par_for_with(cases_c.len() as u64, 4, rt, |rt, i| {
        let (p, resp) = &cases_c[i as usize];
        let obs = run_c(&ctx, rt, &acceptor, PVS[*p].0, resp);
        ctx.inc("evaluations");
        if i % 97 == 41 {
            ctx.sample(format!("C client {}: {obs}", PVS[*p].0));
        }
    });

    ctx.set("states", ctx.get("transitions"));
    ctx.exhaustive(true);
    ctx.finish();
}
