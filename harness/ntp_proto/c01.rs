//! C01: not implemented yet.
