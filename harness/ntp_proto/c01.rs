//! C01 — Clock steps never exceed the configured panic thresholds.
//!
//! This file also hosts the explicit-state engine shared with C02 and C06 (`pub(super)`
//! items): a `World` made of the REAL `KalmanClockController<RecClock>`, the REAL
//! two-way / one-way Kalman source controllers, a FIFO that plays the role of the
//! `TimeSyncControllerWrapper` channel, the single-shot timer of `run`, and a recording
//! mock `NtpClock`. One alphabet event = one source-side action (measurement, usability
//! change, drop) and/or one controller-loop iteration (message delivery, timer expiry);
//! steering messages returned in `InternalStateUpdate::source_message` are fed back to all
//! live source controllers (one-way first, then two-way) exactly as `run` does.
//!
//! Exploration is breadth-first over event histories with canonical-key deduplication.
//! The source filters hold `tokio::time::Instant`s of a paused clock that can only move
//! forward, so a successor is not produced by cloning but by *replaying* the
//! representative history of its parent plus one event on a fresh world (a few µs per
//! event). The key is the exact bit pattern of all private state (probes) + channel +
//! timer + mock clock + oracle model, so merging is sound. The only nondeterminism of the
//! code under test, the iteration order of the `sources` HashMap (RandomState), is owned:
//! a world is re-created until the observed order equals the one demanded by the
//! configuration (axis `ord`), which makes replays bit-reproducible and lets both orders
//! be explored.
//!
//! C01 oracle (from the statement, i128 arithmetic on NTP fixed-point units):
//!   synced := false until the first controller update that reports `used_sources`;
//!   every recorded `step_clock(d)`: if !synced, d must not lie outside the startup window,
//!   else not outside the single-step window and acc += |d| must not exceed the accumulated
//!   threshold. An update that ends in the `Threshold exceeded` panic (cfg(test) image of
//!   `exit(SOFTWARE)`) is the daemon stopping: terminal, and it must not have stepped.
use std::collections::{BTreeMap, HashSet, VecDeque};
use std::hash::{Hash, Hasher};
use std::sync::{Arc, Mutex};
use std::time::Duration;

use super::common::{self, Ctx};
use crate::ClockId;
use crate::algorithm::{
    AlgorithmConfig, InternalMeasurement, InternalSourceController, InternalStateUpdate,
    InternalTimeSyncController, KalmanClockController, KalmanControllerMessage,
    KalmanSourceMessage, TwoWayKalmanSourceController,
};
use crate::clock::NtpClock;
use crate::config::{SourceConfig, StepThreshold, SynchronizationConfig};
use crate::packet::NtpLeapIndicator;
use crate::system::TimeSnapshot;
use crate::time_types::{NtpDuration, NtpTimestamp};

pub(super) type OneWay =
    <KalmanClockController<RecClock> as InternalTimeSyncController>::OneWaySourceController;

/// one second in NTP fixed-point units
pub(super) const S: i64 = 1 << 32;
pub(super) const MS: i64 = S / 1000;

pub(super) fn du(d: NtpDuration) -> i64 {
    u64::from_be_bytes((NtpTimestamp::from_fixed_int(0) + d).to_bits()) as i64
}
pub(super) fn tu(t: NtpTimestamp) -> u64 {
    u64::from_be_bytes(t.to_bits())
}
pub(super) fn secs(units: i64) -> f64 {
    units as f64 / 4294967296.0
}

// ------------------------------------------------------------------------------------
// recording mock clock
// ------------------------------------------------------------------------------------

#[derive(Clone, Debug, PartialEq)]
pub(super) enum Call {
    Step(i64),
    SetFreq(f64),
    ErrEst(i64, i64),
    Status(u8),
    Disable,
}

#[derive(Debug)]
struct ClockInner {
    now: u64,
    freq: f64,
    log: Vec<Call>,
}

#[derive(Clone, Debug)]
pub(super) struct RecClock(Arc<Mutex<ClockInner>>);

impl RecClock {
    fn new(freq: f64) -> Self {
        // local time starts at 2^31 s (middle of the era) so that steps of +-2^30 s do not wrap
        RecClock(Arc::new(Mutex::new(ClockInner {
            now: 1u64 << 63,
            freq,
            log: Vec::new(),
        })))
    }
    fn take_log(&self) -> Vec<Call> {
        std::mem::take(&mut self.0.lock().unwrap().log)
    }
    fn advance_local(&self, d: i64) {
        let mut c = self.0.lock().unwrap();
        c.now = c.now.wrapping_add(d as u64);
    }
    pub(super) fn local_now(&self) -> u64 {
        self.0.lock().unwrap().now
    }
    fn freq(&self) -> f64 {
        self.0.lock().unwrap().freq
    }
}

pub(super) fn leap_code(l: NtpLeapIndicator) -> u8 {
    match l {
        NtpLeapIndicator::NoWarning => 0,
        NtpLeapIndicator::Leap61 => 1,
        NtpLeapIndicator::Leap59 => 2,
        NtpLeapIndicator::Unknown => 3,
        NtpLeapIndicator::Unsynchronized => 4,
    }
}
fn leap_of(c: u8) -> NtpLeapIndicator {
    match c {
        0 => NtpLeapIndicator::NoWarning,
        1 => NtpLeapIndicator::Leap61,
        2 => NtpLeapIndicator::Leap59,
        3 => NtpLeapIndicator::Unknown,
        _ => NtpLeapIndicator::Unsynchronized,
    }
}

impl NtpClock for RecClock {
    type Error = std::io::Error;
    fn now(&self) -> Result<NtpTimestamp, Self::Error> {
        Ok(NtpTimestamp::from_fixed_int(self.0.lock().unwrap().now))
    }
    fn set_frequency(&self, freq: f64) -> Result<NtpTimestamp, Self::Error> {
        let mut c = self.0.lock().unwrap();
        c.log.push(Call::SetFreq(freq));
        c.freq = freq;
        Ok(NtpTimestamp::from_fixed_int(c.now))
    }
    fn get_frequency(&self) -> Result<f64, Self::Error> {
        Ok(self.0.lock().unwrap().freq)
    }
    fn step_clock(&self, offset: NtpDuration) -> Result<NtpTimestamp, Self::Error> {
        let mut c = self.0.lock().unwrap();
        let d = du(offset);
        c.log.push(Call::Step(d));
        c.now = c.now.wrapping_add(d as u64);
        Ok(NtpTimestamp::from_fixed_int(c.now))
    }
    fn disable_ntp_algorithm(&self) -> Result<(), Self::Error> {
        self.0.lock().unwrap().log.push(Call::Disable);
        Ok(())
    }
    fn error_estimate_update(&self, est: NtpDuration, max: NtpDuration) -> Result<(), Self::Error> {
        self.0
            .lock()
            .unwrap()
            .log
            .push(Call::ErrEst(du(est), du(max)));
        Ok(())
    }
    fn status_update(&self, leap: NtpLeapIndicator) -> Result<(), Self::Error> {
        self.0
            .lock()
            .unwrap()
            .log
            .push(Call::Status(leap_code(leap)));
        Ok(())
    }
}

// ------------------------------------------------------------------------------------
// configuration
// ------------------------------------------------------------------------------------

#[derive(Clone, Debug, PartialEq)]
pub(super) enum SrcKind {
    Two,
    One {
        noise: f64,
        accuracy: f64,
        period: Option<f64>,
    },
}

#[derive(Clone, Debug, PartialEq)]
pub(super) struct Cfg {
    /// (forward, backward) in units; None = infinite
    pub startup: (Option<i64>, Option<i64>),
    pub single: (Option<i64>, Option<i64>),
    pub acc: Option<i64>,
    pub min_agree: usize,
    /// demanded iteration order of the controller's source table: 0 ascending id, 1 descending,
    /// 2.. the remaining permutations (see `order_permutation`)
    pub order: u8,
    pub init_freq: f64,
    pub step_threshold: f64,
    pub max_steer: f64,
    pub slew_max: f64,
    pub slew_min_dur: f64,
    pub max_src_unc: f64,
    pub sources: Vec<SrcKind>,
    /// leap indicator each source reports with its measurements unless the event names one
    /// itself (code: 0 NoWarning, 1 Leap61, 2 Leap59, 3 Unknown, 4 Unsynchronized); empty = all 0
    pub leaps: Vec<u8>,
}

impl Default for Cfg {
    fn default() -> Self {
        let a = AlgorithmConfig::default();
        Cfg {
            startup: (None, None),
            single: (None, None),
            acc: None,
            min_agree: 1,
            order: 0,
            init_freq: 0.0,
            step_threshold: a.step_threshold,
            max_steer: a.maximum_frequency_steer,
            slew_max: a.slew_maximum_frequency_offset,
            slew_min_dur: a.slew_minimum_duration,
            max_src_unc: a.maximum_source_uncertainty,
            sources: vec![
                SrcKind::Two,
                SrcKind::Two,
                SrcKind::One {
                    noise: 1e-6,
                    accuracy: 0.0,
                    period: None,
                },
            ],
            leaps: Vec::new(),
        }
    }
}

fn thr(t: (Option<i64>, Option<i64>)) -> StepThreshold {
    StepThreshold {
        forward: t.0.map(NtpDuration::from_fixed_int),
        backward: t.1.map(NtpDuration::from_fixed_int),
    }
}

fn fmt_opt(v: Option<i64>) -> String {
    v.map_or("inf".to_string(), |x| x.to_string())
}
fn parse_opt(s: &str) -> Option<i64> {
    if s == "inf" { None } else { s.parse().ok() }
}

impl Cfg {
    pub(super) fn sync(&self) -> SynchronizationConfig {
        SynchronizationConfig {
            minimum_agreeing_sources: self.min_agree,
            single_step_panic_threshold: thr(self.single),
            startup_step_panic_threshold: thr(self.startup),
            accumulated_step_panic_threshold: self.acc.map(NtpDuration::from_fixed_int),
            ..SynchronizationConfig::default()
        }
    }
    pub(super) fn algo(&self) -> AlgorithmConfig {
        AlgorithmConfig {
            step_threshold: self.step_threshold,
            maximum_frequency_steer: self.max_steer,
            slew_maximum_frequency_offset: self.slew_max,
            slew_minimum_duration: self.slew_min_dur,
            maximum_source_uncertainty: self.max_src_unc,
            ..AlgorithmConfig::default()
        }
    }
    pub(super) fn encode(&self) -> String {
        let src: Vec<String> = self
            .sources
            .iter()
            .map(|k| match k {
                SrcKind::Two => "T".to_string(),
                SrcKind::One {
                    noise,
                    accuracy,
                    period,
                } => format!(
                    "O:{noise:?}:{accuracy:?}:{}",
                    period.map_or("-".to_string(), |p| format!("{p:?}"))
                ),
            })
            .collect();
        format!(
            "su={}/{};si={}/{};ac={};min={};ord={};f0={:?};st={:?};ms={:?};sm={:?};sd={:?};mu={:?};src={}",
            fmt_opt(self.startup.0),
            fmt_opt(self.startup.1),
            fmt_opt(self.single.0),
            fmt_opt(self.single.1),
            fmt_opt(self.acc),
            self.min_agree,
            self.order,
            self.init_freq,
            self.step_threshold,
            self.max_steer,
            self.slew_max,
            self.slew_min_dur,
            self.max_src_unc,
            src.join("+")
        ) + &if self.leaps.iter().any(|l| *l != 0) {
            format!(
                ";lp={}",
                self.leaps
                    .iter()
                    .map(|l| l.to_string())
                    .collect::<Vec<_>>()
                    .join("+")
            )
        } else {
            String::new()
        }
    }
    pub(super) fn decode(s: &str) -> Option<Cfg> {
        let mut c = Cfg::default();
        for kv in s.split(';') {
            let (k, v) = kv.split_once('=')?;
            let pair = |v: &str| -> Option<(Option<i64>, Option<i64>)> {
                let (a, b) = v.split_once('/')?;
                Some((parse_opt(a), parse_opt(b)))
            };
            match k {
                "su" => c.startup = pair(v)?,
                "si" => c.single = pair(v)?,
                "ac" => c.acc = parse_opt(v),
                "min" => c.min_agree = v.parse().ok()?,
                "ord" => c.order = v.parse().ok()?,
                "f0" => c.init_freq = v.parse().ok()?,
                "st" => c.step_threshold = v.parse().ok()?,
                "ms" => c.max_steer = v.parse().ok()?,
                "sm" => c.slew_max = v.parse().ok()?,
                "sd" => c.slew_min_dur = v.parse().ok()?,
                "mu" => c.max_src_unc = v.parse().ok()?,
                "lp" => {
                    c.leaps = v
                        .split('+')
                        .map(|t| t.parse().ok())
                        .collect::<Option<Vec<u8>>>()?
                }
                "src" => {
                    c.sources = v
                        .split('+')
                        .map(|t| {
                            if t == "T" {
                                Some(SrcKind::Two)
                            } else {
                                let p: Vec<&str> = t.split(':').collect();
                                if p.len() != 4 || p[0] != "O" {
                                    return None;
                                }
                                Some(SrcKind::One {
                                    noise: p[1].parse().ok()?,
                                    accuracy: p[2].parse().ok()?,
                                    period: if p[3] == "-" {
                                        None
                                    } else {
                                        Some(p[3].parse().ok()?)
                                    },
                                })
                            }
                        })
                        .collect::<Option<Vec<_>>>()?;
                }
                _ => return None,
            }
        }
        Some(c)
    }
}

// ------------------------------------------------------------------------------------
// events
// ------------------------------------------------------------------------------------

#[derive(Clone, Debug, PartialEq, Eq, Hash)]
pub(super) enum Ev {
    /// `reps` measurements of source `src`; before each one the local clock advances by
    /// `dt` units and the monotonic (tokio) clock by `mono_ns`. Repetition k uses offset
    /// `off + wob*po(k)` and delay `delay + dwob*pd(k)` (saturating) where the jitter pattern
    /// `pat` gives (po, pd): 0 -> ((k%3)-1, k%2); 1 monotone -> (k, k); 2 alternating ->
    /// (-1,+1,-1,..) for both; 3 irregular -> [0,3,1,7,2,5,4,6][k%8] for both.
    /// `defer`: the message stays queued in the channel instead of being processed at once.
    Meas {
        src: u8,
        off: i64,
        delay: i64,
        dt: i64,
        mono_ns: u64,
        rdelay: i64,
        rdisp: i64,
        leap: u8,
        reps: u8,
        defer: bool,
        wob: i64,
        dwob: i64,
        pat: u8,
    },
    /// the controller loop processes the oldest queued message
    Deliver,
    /// the single-shot timer of `run` expires (time first advances to its deadline)
    Tick,
    Usable {
        src: u8,
        on: bool,
    },
    Remove {
        src: u8,
    },
    /// A long realistic run: `rounds` polling rounds over the first `classes.len()` (two-way)
    /// sources, one measurement every `dt` units, round robin. Source class per character:
    /// `W` = WAN server (delay 10 ms +- 1 ms, offset +- 200 us, root delay 5 ms, root dispersion
    /// 1 ms), `L` = server on the local segment (delay 1.5 us +- 1 us, i.e. below the delay
    /// floor, offset +- 2 us, root delay 0, root dispersion 0), `M` = like L with root
    /// dispersion 1 us. Jitter from a fixed LCG started at `seed` (delay drawn before offset).
    /// The slew-end timer fires on the way at its deadline (`late` = false) or, like a busy
    /// loop, just before the next measurement (`late` = true).
    Run {
        classes: String,
        rounds: u16,
        seed: u64,
        dt: i64,
        late: bool,
    },
}

/// LCG jitter in [-1, 1) used by `Ev::Run`
pub(super) fn lcg_jitter(state: &mut u64) -> f64 {
    *state = state
        .wrapping_mul(6_364_136_223_846_793_005)
        .wrapping_add(1_442_695_040_888_963_407);
    ((*state >> 11) as f64 / (1u64 << 53) as f64) * 2.0 - 1.0
}
pub(super) const RUN_SEED: u64 = 0x2545_F491_4F6C_DD1D;

/// jitter multipliers (offset, delay) of repetition `k` under pattern `pat`
pub(super) fn jitter(pat: u8, k: u8) -> (i64, i64) {
    match pat {
        0 => ((k % 3) as i64 - 1, (k % 2) as i64),
        1 => (k as i64, k as i64),
        2 => {
            let s = (k % 2) as i64 * 2 - 1;
            (s, s)
        }
        _ => {
            let s = [0i64, 3, 1, 7, 2, 5, 4, 6][(k % 8) as usize];
            (s, s)
        }
    }
}

impl Ev {
    /// plain measurement helper: offset/delay in units, dt in whole units, same dt on both clocks
    pub(super) fn meas(src: u8, off: i64, delay: i64, dt: i64) -> Ev {
        Ev::Meas {
            src,
            off,
            delay,
            dt,
            mono_ns: units_to_ns(dt),
            rdelay: 0,
            rdisp: 0,
            leap: 0,
            reps: 1,
            defer: false,
            wob: 0,
            dwob: 0,
            pat: 0,
        }
    }
    pub(super) fn burst(
        src: u8,
        off: i64,
        delay: i64,
        dt: i64,
        reps: u8,
        wob: i64,
        dwob: i64,
    ) -> Ev {
        let mut e = Ev::meas(src, off, delay, dt);
        if let Ev::Meas {
            reps: r,
            wob: w,
            dwob: d,
            ..
        } = &mut e
        {
            *r = reps;
            *w = wob;
            *d = dwob;
        }
        e
    }
    pub(super) fn with_pattern(mut self, p: u8) -> Ev {
        if let Ev::Meas { pat, .. } = &mut self {
            *pat = p;
        }
        self
    }
    pub(super) fn deferred(mut self) -> Ev {
        if let Ev::Meas { defer, .. } = &mut self {
            *defer = true;
        }
        self
    }
    pub(super) fn with_mono(mut self, ns: u64) -> Ev {
        if let Ev::Meas { mono_ns, .. } = &mut self {
            *mono_ns = ns;
        }
        self
    }
    pub(super) fn with_root(mut self, rd: i64, rdp: i64) -> Ev {
        if let Ev::Meas { rdelay, rdisp, .. } = &mut self {
            *rdelay = rd;
            *rdisp = rdp;
        }
        self
    }
    pub(super) fn with_leap(mut self, l: u8) -> Ev {
        if let Ev::Meas { leap, .. } = &mut self {
            *leap = l;
        }
        self
    }
    pub(super) fn encode(&self) -> String {
        match self {
            Ev::Meas {
                src,
                off,
                delay,
                dt,
                mono_ns,
                rdelay,
                rdisp,
                leap,
                reps,
                defer,
                wob,
                dwob,
                pat,
            } => {
                let mut s = format!(
                    "m{src}:{off}:{delay}:{dt}:{mono_ns}:{rdelay}:{rdisp}:{leap}:{reps}:{}:{wob}:{dwob}",
                    *defer as u8
                );
                if *pat != 0 {
                    s.push_str(&format!(":{pat}"));
                }
                s
            }
            Ev::Deliver => "d".to_string(),
            Ev::Tick => "t".to_string(),
            Ev::Usable { src, on } => format!("u{src}:{}", *on as u8),
            Ev::Remove { src } => format!("r{src}"),
            Ev::Run {
                classes,
                rounds,
                seed,
                dt,
                late,
            } => format!("R{classes}:{rounds}:{seed}:{dt}:{}", *late as u8),
        }
    }
    pub(super) fn decode(s: &str) -> Option<Ev> {
        let (head, rest) = s.split_at(1);
        match head {
            "d" => Some(Ev::Deliver),
            "t" => Some(Ev::Tick),
            "r" => Some(Ev::Remove {
                src: rest.parse().ok()?,
            }),
            "R" => {
                let p: Vec<&str> = rest.split(':').collect();
                if p.len() != 5 {
                    return None;
                }
                Some(Ev::Run {
                    classes: p[0].to_string(),
                    rounds: p[1].parse().ok()?,
                    seed: p[2].parse().ok()?,
                    dt: p[3].parse().ok()?,
                    late: p[4] == "1",
                })
            }
            "u" => {
                let (a, b) = rest.split_once(':')?;
                Some(Ev::Usable {
                    src: a.parse().ok()?,
                    on: b == "1",
                })
            }
            "m" => {
                let p: Vec<&str> = rest.split(':').collect();
                if p.len() != 12 && p.len() != 13 {
                    return None;
                }
                Some(Ev::Meas {
                    src: p[0].parse().ok()?,
                    off: p[1].parse().ok()?,
                    delay: p[2].parse().ok()?,
                    dt: p[3].parse().ok()?,
                    mono_ns: p[4].parse().ok()?,
                    rdelay: p[5].parse().ok()?,
                    rdisp: p[6].parse().ok()?,
                    leap: p[7].parse().ok()?,
                    reps: p[8].parse().ok()?,
                    defer: p[9] == "1",
                    wob: p[10].parse().ok()?,
                    dwob: p[11].parse().ok()?,
                    pat: if p.len() == 13 {
                        p[12].parse().ok()?
                    } else {
                        0
                    },
                })
            }
            _ => None,
        }
    }
}

pub(super) fn units_to_ns(u: i64) -> u64 {
    ((u.max(0) as u128 * 1_000_000_000u128) >> 32) as u64
}

pub(super) fn encode_trace(cfg: &Cfg, evs: &[&Ev]) -> String {
    let e: Vec<String> = evs.iter().map(|e| e.encode()).collect();
    format!("{}|{}", cfg.encode(), e.join(","))
}

pub(super) fn decode_trace(t: &str) -> Option<(Cfg, Vec<Ev>)> {
    let (c, e) = t.trim().split_once('|')?;
    let cfg = Cfg::decode(c)?;
    let evs = if e.is_empty() {
        vec![]
    } else {
        e.split(',').map(Ev::decode).collect::<Option<Vec<_>>>()?
    };
    Some((cfg, evs))
}

/// Iteration order (list of ids 1..=n) number `order` of the controller's source table:
/// 0 = ascending, 1 = descending, 2.. = the remaining permutations in lexicographic order.
pub(super) fn order_permutation(order: u8, n: usize) -> Vec<u64> {
    let asc: Vec<u64> = (1..=n as u64).collect();
    let mut desc = asc.clone();
    desc.reverse();
    if order == 0 || n < 2 {
        return asc;
    }
    if order == 1 {
        return desc;
    }
    fn rec(cur: &mut Vec<u64>, used: &mut Vec<bool>, n: usize, out: &mut Vec<Vec<u64>>) {
        if cur.len() == n {
            out.push(cur.clone());
            return;
        }
        for i in 0..n {
            if !used[i] {
                used[i] = true;
                cur.push(i as u64 + 1);
                rec(cur, used, n, out);
                cur.pop();
                used[i] = false;
            }
        }
    }
    let mut all = Vec::new();
    rec(&mut Vec::new(), &mut vec![false; n], n, &mut all);
    all.retain(|p| *p != asc && *p != desc);
    all.get(order as usize - 2).cloned().unwrap_or(asc)
}

/// number of distinct table orders for n sources (n!)
pub(super) fn order_count(n: usize) -> u8 {
    (1..=n).product::<usize>().min(120) as u8
}

// ------------------------------------------------------------------------------------
// world
// ------------------------------------------------------------------------------------

pub(super) enum Src {
    Two(TwoWayKalmanSourceController),
    One(OneWay),
}

struct Slot {
    id: ClockId,
    src: Option<Src>,
}

enum ChanMsg {
    Source(KalmanSourceMessage),
    Usable(bool),
    Dropped,
}

#[derive(Clone, Debug, PartialEq)]
pub(super) enum End {
    Ok,
    /// the `Threshold exceeded` panic: cfg(test) image of `std::process::exit(SOFTWARE)`
    Exit,
    /// any other panic of the code under test: (site, message)
    Panic(String, String),
}

/// One invocation of the controller (one loop iteration of `run`).
#[derive(Clone, Debug)]
pub(super) struct Upd {
    /// 0 source_message, 1 time_update, 2 source_update(usable), 3 remove_source
    pub kind: u8,
    pub src: u64,
    pub calls: Vec<Call>,
    pub used: Option<Vec<u64>>,
    pub next_update: Option<Duration>,
    pub snap: Option<TimeSnapshot>,
    /// steering message broadcast to the sources: (0 step | 1 freq change, steer, time)
    pub steer: Option<(u8, f64, u64)>,
    pub end: End,
    /// probe view after the update: (freq_offset, desired_freq, in_startup, accumulated units)
    pub view: (f64, f64, bool, i64),
    /// mock local clock after the update
    pub local_now: u64,
    /// the controller's source table after the update: (id, usable, f64 view of the held
    /// snapshot, advertised root dispersion units); uncertainties are those combine() saw
    pub table: Vec<(u64, bool, Option<[f64; 8]>, i64)>,
}

#[derive(Clone, Debug)]
pub(super) struct SrcView {
    pub slot: usize,
    /// 0..=7 samples in the initial phase, 8 = Kalman stage
    pub phase: u8,
    /// [offset, frequency, p00, p01, p10, p11, wander, delay] behind `observe()`
    pub snap: Option<[f64; 8]>,
    /// what `observe()` reports: offset, uncertainty, delay (units)
    pub obs: [i64; 3],
}

#[derive(Clone, Debug)]
pub(super) struct Transition {
    pub enabled: bool,
    pub upds: Vec<Upd>,
    /// f64 view of every source message produced by a `handle_measurement` call
    pub produced: Vec<(usize, Option<[f64; 8]>)>,
    /// per live source after every measurement repetition / loop iteration
    pub views: Vec<SrcView>,
    pub end: End,
}

pub(super) struct World {
    ctrl: KalmanClockController<RecClock>,
    clock: RecClock,
    slots: Vec<Slot>,
    chan: VecDeque<(ClockId, ChanMsg)>,
    timer: Option<tokio::time::Instant>,
    pub dead: Option<End>,
    pub events_executed: u64,
    leaps: Vec<u8>,
}

impl World {
    pub(super) fn new(cfg: &Cfg) -> World {
        let mut tries = 0u32;
        loop {
            tries += 1;
            let clock = RecClock::new(cfg.init_freq);
            let mut ctrl = KalmanClockController::new(clock.clone(), cfg.sync(), cfg.algo())
                .expect("mock clock never fails");
            ctrl.take_control().expect("mock clock never fails");
            let mut slots = Vec::new();
            for (i, k) in cfg.sources.iter().enumerate() {
                let id = ClockId(i as u64 + 1);
                let src = match k {
                    SrcKind::Two => Src::Two(ctrl.add_source(id, SourceConfig::default())),
                    SrcKind::One {
                        noise,
                        accuracy,
                        period,
                    } => Src::One(ctrl.add_one_way_source(
                        id,
                        SourceConfig::default(),
                        *noise,
                        *accuracy,
                        *period,
                    )),
                };
                slots.push(Slot { id, src: Some(src) });
            }
            let want = order_permutation(cfg.order, cfg.sources.len());
            if ctrl.ga_order() == want {
                clock.take_log();
                return World {
                    ctrl,
                    clock,
                    slots,
                    chan: VecDeque::new(),
                    timer: None,
                    dead: None,
                    events_executed: 0,
                    leaps: cfg.leaps.clone(),
                };
            }
            assert!(
                tries < 100_000,
                "harness: could not obtain the demanded HashMap order"
            );
        }
    }

    pub(super) fn clock(&self) -> &RecClock {
        &self.clock
    }

    pub(super) fn ctrl(&self) -> &KalmanClockController<RecClock> {
        &self.ctrl
    }

    fn kill(&mut self, e: End) {
        if self.dead.is_none() {
            self.dead = Some(e);
        }
    }

    fn feedback(&mut self, msg: &KalmanControllerMessage) {
        // same order as TimeSyncControllerWrapper::run: one-way sources, then two-way sources
        for pass in 0..2 {
            for s in self.slots.iter_mut() {
                let r = match (&mut s.src, pass) {
                    (Some(Src::One(c)), 0) => common::catch(|| c.handle_message(msg.clone())),
                    (Some(Src::Two(c)), 1) => common::catch(|| c.handle_message(msg.clone())),
                    _ => Ok(()),
                };
                if let Err(m) = r {
                    if self.dead.is_none() {
                        self.dead = Some(End::Panic("source.handle_message".into(), m));
                    }
                }
            }
        }
    }

    fn handle_update(
        &mut self,
        kind: u8,
        src: u64,
        r: Result<InternalStateUpdate<KalmanControllerMessage>, String>,
        tr: &mut Transition,
    ) {
        let calls = self.clock.take_log();
        let local_now = self.clock.local_now();
        match r {
            Ok(u) => {
                let mut end = End::Ok;
                if let Some(d) = u.next_update {
                    // run(): sleeper.reset(tokio::time::Instant::now() + next_update)
                    match tokio::time::Instant::now().checked_add(d) {
                        Some(t) => self.timer = Some(t),
                        None => {
                            end = End::Panic(
                                "run: Instant::now() + next_update".into(),
                                format!("overflow when adding duration {d:?} to instant"),
                            )
                        }
                    }
                }
                tr.upds.push(Upd {
                    kind,
                    src,
                    calls,
                    used: u
                        .used_sources
                        .as_ref()
                        .map(|v| v.iter().map(|c| c.0).collect()),
                    next_update: u.next_update,
                    snap: u.time_snapshot,
                    steer: u.source_message.as_ref().map(|m| m.ga_fields()),
                    end: end.clone(),
                    view: self.ctrl.ga_view(),
                    table: if kind <= 1 {
                        self.ctrl.ga_table()
                    } else {
                        Vec::new()
                    },
                    local_now,
                });
                if end != End::Ok {
                    self.kill(end);
                    return;
                }
                if let Some(m) = u.source_message {
                    self.feedback(&m);
                }
            }
            Err(m) => {
                let end = if m.contains("Threshold exceeded") {
                    End::Exit
                } else {
                    End::Panic(
                        if kind == 1 {
                            "time_update".into()
                        } else {
                            "source_message".into()
                        },
                        m,
                    )
                };
                tr.upds.push(Upd {
                    kind,
                    src,
                    calls,
                    used: None,
                    next_update: None,
                    snap: None,
                    steer: None,
                    end: end.clone(),
                    view: (f64::NAN, f64::NAN, false, 0),
                    table: Vec::new(),
                    local_now,
                });
                self.kill(end);
            }
        }
    }

    /// one iteration of the `run` loop on the message branch
    fn deliver_one(&mut self, tr: &mut Transition) -> bool {
        let Some((id, msg)) = self.chan.pop_front() else {
            return false;
        };
        match msg {
            ChanMsg::Source(m) => {
                let ctrl = &mut self.ctrl;
                let r = common::catch(|| ctrl.source_message(id, m));
                self.handle_update(0, id.0, r, tr);
            }
            ChanMsg::Usable(on) => {
                let ctrl = &mut self.ctrl;
                let r = common::catch(|| ctrl.source_update(id, on))
                    .map(|()| InternalStateUpdate::default());
                self.handle_update(2, id.0, r, tr);
            }
            ChanMsg::Dropped => {
                let ctrl = &mut self.ctrl;
                let r = common::catch(|| ctrl.remove_source(id))
                    .map(|()| InternalStateUpdate::default());
                self.handle_update(3, id.0, r, tr);
            }
        }
        true
    }

    fn drain(&mut self, tr: &mut Transition) {
        while self.dead.is_none() && self.deliver_one(tr) {}
    }

    fn view_sources(&mut self, tr: &mut Transition) {
        for (i, s) in self.slots.iter().enumerate() {
            let r = match &s.src {
                None => continue,
                Some(Src::Two(c)) => {
                    common::catch(|| (c.ga_phase(), c.ga_snapshot_f64s(), c.observe()))
                }
                Some(Src::One(c)) => {
                    common::catch(|| (c.ga_phase(), c.ga_snapshot_f64s(), c.observe()))
                }
            };
            match r {
                Ok((phase, snap, o)) => tr.views.push(SrcView {
                    slot: i,
                    phase,
                    snap,
                    obs: [du(o.offset), du(o.uncertainty), du(o.delay)],
                }),
                Err(m) => {
                    if self.dead.is_none() {
                        self.dead = Some(End::Panic("source.observe".into(), m));
                    }
                }
            }
        }
    }

    pub(super) async fn step(&mut self, ev: &Ev) -> Transition {
        let mut tr = Transition {
            enabled: true,
            upds: Vec::new(),
            produced: Vec::new(),
            views: Vec::new(),
            end: End::Ok,
        };
        if self.dead.is_some() {
            tr.enabled = false;
            tr.end = self.dead.clone().unwrap();
            return tr;
        }
        match ev {
            Ev::Meas {
                src,
                off,
                delay,
                dt,
                mono_ns,
                rdelay,
                rdisp,
                leap,
                reps,
                defer,
                wob,
                dwob,
                pat,
            } => {
                let si = *src as usize;
                if si >= self.slots.len() || self.slots[si].src.is_none() {
                    tr.enabled = false;
                    return tr;
                }
                for k in 0..*reps {
                    tokio::time::advance(Duration::from_nanos(*mono_ns)).await;
                    self.clock.advance_local(*dt);
                    self.events_executed += 1;
                    let (po, pd) = jitter(*pat, k);
                    let off_k = off.saturating_add(wob.saturating_mul(po));
                    let delay_k = delay.saturating_add(dwob.saturating_mul(pd));
                    let localtime = NtpTimestamp::from_fixed_int(self.clock.local_now());
                    // the event's own leap code wins, otherwise the source's configured one
                    let leap = &(if *leap != 0 {
                        *leap
                    } else {
                        self.leaps.get(si).copied().unwrap_or(0)
                    });
                    let id = self.slots[si].id;
                    let r = match self.slots[si].src.as_mut().unwrap() {
                        Src::Two(c) => common::catch(|| {
                            c.handle_measurement(InternalMeasurement {
                                delay: NtpDuration::from_fixed_int(delay_k),
                                offset: NtpDuration::from_fixed_int(off_k),
                                localtime,
                                root_delay: NtpDuration::from_fixed_int(*rdelay),
                                root_dispersion: NtpDuration::from_fixed_int(*rdisp),
                                leap: leap_of(*leap),
                                precision: 0,
                            })
                        }),
                        Src::One(c) => common::catch(|| {
                            c.handle_measurement(InternalMeasurement {
                                delay: (),
                                offset: NtpDuration::from_fixed_int(off_k),
                                localtime,
                                root_delay: NtpDuration::from_fixed_int(*rdelay),
                                root_dispersion: NtpDuration::from_fixed_int(*rdisp),
                                leap: leap_of(*leap),
                                precision: 0,
                            })
                        }),
                    };
                    match r {
                        Ok(Some(m)) => {
                            tr.produced.push((si, Some(m.ga_f64s())));
                            self.chan.push_back((id, ChanMsg::Source(m)));
                        }
                        Ok(None) => tr.produced.push((si, None)),
                        Err(m) => self.kill(End::Panic("source.handle_measurement".into(), m)),
                    }
                    if !*defer {
                        self.drain(&mut tr);
                    }
                    self.view_sources(&mut tr);
                    if self.dead.is_some() {
                        break;
                    }
                }
            }
            Ev::Run {
                classes,
                rounds,
                seed,
                dt,
                late,
            } => {
                let n = classes.len();
                if n == 0
                    || n > self.slots.len()
                    || self.slots[..n]
                        .iter()
                        .any(|s| !matches!(s.src, Some(Src::Two(_))))
                {
                    tr.enabled = false;
                    return tr;
                }
                let mut rng = *seed;
                'run: for _ in 0..*rounds {
                    for (si, class) in classes.bytes().enumerate() {
                        let mut remaining = *dt;
                        if !*late {
                            // the loop is idle: the timer fires at its deadline on the way
                            if let Some(deadline) = self.timer {
                                let until =
                                    deadline.saturating_duration_since(tokio::time::Instant::now());
                                let until_units = du(NtpDuration::from_system_duration(until));
                                if until_units <= remaining {
                                    tokio::time::advance(until).await;
                                    self.clock.advance_local(until_units);
                                    remaining -= until_units;
                                    self.timer = None;
                                    self.events_executed += 1;
                                    let ctrl = &mut self.ctrl;
                                    let r = common::catch(|| ctrl.time_update());
                                    self.handle_update(1, 0, r, &mut tr);
                                    if self.dead.is_some() {
                                        break 'run;
                                    }
                                }
                            }
                        }
                        tokio::time::advance(Duration::from_nanos(units_to_ns(remaining))).await;
                        self.clock.advance_local(remaining);
                        if *late {
                            if let Some(deadline) = self.timer {
                                if deadline <= tokio::time::Instant::now() {
                                    self.timer = None;
                                    self.events_executed += 1;
                                    let ctrl = &mut self.ctrl;
                                    let r = common::catch(|| ctrl.time_update());
                                    self.handle_update(1, 0, r, &mut tr);
                                    if self.dead.is_some() {
                                        break 'run;
                                    }
                                }
                            }
                        }
                        self.events_executed += 1;
                        let (delay, offset, rdelay, rdisp) = match class {
                            b'W' => {
                                let d =
                                    NtpDuration::from_seconds(10e-3 + 1e-3 * lcg_jitter(&mut rng));
                                let o = NtpDuration::from_seconds(200e-6 * lcg_jitter(&mut rng));
                                (
                                    d,
                                    o,
                                    NtpDuration::from_seconds(5e-3),
                                    NtpDuration::from_seconds(1e-3),
                                )
                            }
                            c => {
                                let d =
                                    NtpDuration::from_seconds(1.5e-6 + 1e-6 * lcg_jitter(&mut rng));
                                let o = NtpDuration::from_seconds(2e-6 * lcg_jitter(&mut rng));
                                let disp = if c == b'M' {
                                    NtpDuration::from_seconds(1e-6)
                                } else {
                                    NtpDuration::ZERO
                                };
                                (d, o, NtpDuration::ZERO, disp)
                            }
                        };
                        let localtime = NtpTimestamp::from_fixed_int(self.clock.local_now());
                        let leap = leap_of(self.leaps.get(si).copied().unwrap_or(0));
                        let id = self.slots[si].id;
                        let r = match self.slots[si].src.as_mut().unwrap() {
                            Src::Two(c) => common::catch(|| {
                                c.handle_measurement(InternalMeasurement {
                                    delay,
                                    offset,
                                    localtime,
                                    root_delay: rdelay,
                                    root_dispersion: rdisp,
                                    leap,
                                    precision: -20,
                                })
                            }),
                            Src::One(_) => unreachable!(),
                        };
                        match r {
                            Ok(Some(m)) => {
                                tr.produced.push((si, Some(m.ga_f64s())));
                                self.chan.push_back((id, ChanMsg::Source(m)));
                            }
                            Ok(None) => tr.produced.push((si, None)),
                            Err(m) => self.kill(End::Panic("source.handle_measurement".into(), m)),
                        }
                        self.drain(&mut tr);
                        self.view_sources(&mut tr);
                        if self.dead.is_some() {
                            break 'run;
                        }
                    }
                }
            }
            Ev::Deliver => {
                if self.chan.is_empty() {
                    tr.enabled = false;
                    return tr;
                }
                self.events_executed += 1;
                self.deliver_one(&mut tr);
                self.view_sources(&mut tr);
            }
            Ev::Tick => {
                let Some(deadline) = self.timer else {
                    tr.enabled = false;
                    return tr;
                };
                let now = tokio::time::Instant::now();
                if deadline > now {
                    let d = deadline - now;
                    tokio::time::advance(d).await;
                    self.clock
                        .advance_local(du(NtpDuration::from_system_duration(d)));
                }
                self.timer = None;
                self.events_executed += 1;
                let ctrl = &mut self.ctrl;
                let r = common::catch(|| ctrl.time_update());
                self.handle_update(1, 0, r, &mut tr);
                self.view_sources(&mut tr);
            }
            Ev::Usable { src, on } => {
                let si = *src as usize;
                if si >= self.slots.len() || self.slots[si].src.is_none() {
                    tr.enabled = false;
                    return tr;
                }
                self.events_executed += 1;
                self.chan
                    .push_back((self.slots[si].id, ChanMsg::Usable(*on)));
                self.drain(&mut tr);
            }
            Ev::Remove { src } => {
                let si = *src as usize;
                if si >= self.slots.len() || self.slots[si].src.is_none() {
                    tr.enabled = false;
                    return tr;
                }
                self.events_executed += 1;
                // the wrapper is dropped: its controller stops receiving steering messages
                // at once, the Dropped notification travels through the channel
                self.slots[si].src = None;
                self.chan.push_back((self.slots[si].id, ChanMsg::Dropped));
                self.drain(&mut tr);
            }
        }
        tr.end = self.dead.clone().unwrap_or(End::Ok);
        tr
    }

    /// Canonical key: exact bit patterns of everything that can influence the future.
    pub(super) fn key(&self, model_hash: u64) -> u128 {
        let mut w: Vec<u64> = Vec::with_capacity(160);
        w.push(model_hash);
        match &self.dead {
            None => w.push(0),
            Some(End::Ok) => w.push(1),
            Some(End::Exit) => w.push(2),
            Some(End::Panic(..)) => w.push(3),
        }
        self.ctrl.ga_state_words(&mut w);
        let now = tokio::time::Instant::now();
        for s in &self.slots {
            match &s.src {
                None => w.push(u64::MAX - 1),
                Some(Src::Two(c)) => c.ga_state_words(now, &mut w),
                Some(Src::One(c)) => c.ga_state_words(now, &mut w),
            }
        }
        w.push(self.chan.len() as u64);
        for (id, m) in &self.chan {
            w.push(id.0);
            match m {
                ChanMsg::Source(m) => {
                    w.push(0);
                    m.ga_words(&mut w);
                }
                ChanMsg::Usable(b) => w.push(1 + *b as u64),
                ChanMsg::Dropped => w.push(3),
            }
        }
        match self.timer {
            None => w.push(u64::MAX),
            Some(t) => {
                let d = t.checked_duration_since(now).unwrap_or(Duration::ZERO);
                w.push(d.as_secs());
                w.push(d.subsec_nanos() as u64);
            }
        }
        w.push(self.clock.local_now());
        w.push(self.clock.freq().to_bits());
        hash128(&w)
    }
}

pub(super) fn hash128(w: &[u64]) -> u128 {
    let mut a: u64 = 0x243f6a8885a308d3;
    let mut b: u64 = 0x13198a2e03707344;
    for &x in w {
        a = (a ^ x).wrapping_mul(0x9e3779b97f4a7c15);
        a ^= a >> 29;
        b = (b.rotate_left(23) ^ x).wrapping_mul(0xc2b2ae3d27d4eb4f);
        b ^= b >> 31;
    }
    a = (a ^ (a >> 32)).wrapping_mul(0xd6e8feb86659fd93);
    b = (b ^ (b >> 33)).wrapping_mul(0xff51afd7ed558ccd);
    ((a as u128) << 64) | (b ^ (b >> 29)) as u128
}

// ------------------------------------------------------------------------------------
// explorer
// ------------------------------------------------------------------------------------

#[derive(Default)]
pub(super) struct Report {
    pub tally: BTreeMap<&'static str, u64>,
    /// (class, what)
    pub viols: Vec<(String, String)>,
    /// short human readable outcome of the judged transition (for samples)
    pub note: Option<String>,
}

impl Report {
    pub(super) fn inc(&mut self, k: &'static str) {
        *self.tally.entry(k).or_insert(0) += 1;
    }
    pub(super) fn add(&mut self, k: &'static str, n: u64) {
        *self.tally.entry(k).or_insert(0) += n;
    }
    pub(super) fn viol(&mut self, class: impl Into<String>, what: impl Into<String>) {
        self.viols.push((class.into(), what.into()));
    }
}

pub(super) struct Spec {
    /// violations of lower rank are reported first (0 = shipped algorithm configuration)
    pub rank: u8,
    pub name: String,
    pub cfg: Cfg,
    pub prefix: Vec<Ev>,
    pub alphabet: Vec<Ev>,
    pub depth: usize,
}

struct CandOut {
    key: u128,
    enabled: bool,
    terminal: bool,
    nontrivial: bool,
    events: u64,
}

async fn run_history<M, J>(
    spec: &Spec,
    hist: &[u16],
    judge: &J,
    mut report: Option<&mut Report>,
) -> CandOut
where
    M: Default + Hash,
    J: Fn(&Cfg, &mut M, &Transition, Option<&mut Report>),
{
    let mut w = World::new(&spec.cfg);
    let mut m = M::default();
    let mut out = CandOut {
        key: 0,
        enabled: true,
        terminal: false,
        nontrivial: false,
        events: 0,
    };
    let judge_prefix = hist.is_empty();
    for ev in &spec.prefix {
        let tr = w.step(ev).await;
        if judge_prefix {
            judge(&spec.cfg, &mut m, &tr, report.as_deref_mut());
            out.nontrivial |= !tr.upds.is_empty();
        } else {
            judge(&spec.cfg, &mut m, &tr, None);
        }
    }
    for (i, &s) in hist.iter().enumerate() {
        let tr = w.step(&spec.alphabet[s as usize]).await;
        if i + 1 == hist.len() {
            out.enabled = tr.enabled;
            out.nontrivial = !tr.upds.is_empty();
            if tr.enabled {
                judge(&spec.cfg, &mut m, &tr, report.as_deref_mut());
            }
        } else {
            judge(&spec.cfg, &mut m, &tr, None);
        }
    }
    out.terminal = w.dead.is_some();
    out.events = w.events_executed;
    out.key = w.key(common::hash_of(&m));
    out
}

pub(super) fn trace_of(spec: &Spec, hist: &[u16]) -> String {
    let evs: Vec<&Ev> = spec
        .prefix
        .iter()
        .chain(hist.iter().map(|&s| &spec.alphabet[s as usize]))
        .collect();
    encode_trace(&spec.cfg, &evs)
}

/// What one exploration (one configuration, one start state, one alphabet) produced.
/// Merged into the `Ctx` by `run_specs` in specification order, so reports are
/// deterministic although specifications are explored in parallel.
#[derive(Default)]
pub(super) struct SpecOut {
    pub tally: BTreeMap<&'static str, u64>,
    /// (class, what, trace, number of events) — at most 2 per class, shortest first
    pub viols: Vec<(String, String, String, usize)>,
    pub viol_totals: BTreeMap<String, u64>,
    pub samples: Vec<String>,
    pub distinct: Vec<u64>,
    pub max_depth: u64,
    pub cap: Option<String>,
}

impl SpecOut {
    fn absorb(&mut self, spec: &Spec, hist: &[u16], rep: Report) {
        for (k, v) in &rep.tally {
            *self.tally.entry(k).or_insert(0) += *v;
        }
        for (class, what) in rep.viols {
            let n = self.viol_totals.entry(class.clone()).or_insert(0);
            *n += 1;
            if *n <= 2 {
                self.viols.push((
                    class,
                    what,
                    trace_of(spec, hist),
                    spec.prefix.len() + hist.len(),
                ));
            }
        }
        if let Some(n) = rep.note {
            if self.samples.len() < 2 {
                self.samples
                    .push(format!("[{}] {} -> {}", spec.name, trace_of(spec, hist), n));
            }
        }
    }
    fn add(&mut self, k: &'static str, n: u64) {
        *self.tally.entry(k).or_insert(0) += n;
    }
}

/// Breadth-first exploration of `spec` with key deduplication (sequential, inside one
/// paused runtime). `out.cap` is set if the wall budget stopped it before `spec.depth`.
pub(super) fn explore<M, J>(ctx: &Ctx, spec: &Spec, judge: &J) -> SpecOut
where
    M: Default + Hash,
    J: Fn(&Cfg, &mut M, &Transition, Option<&mut Report>),
{
    let id = ctx.id;
    super::block_on_paused(async {
        let mut out = SpecOut::default();
        // level 0: the start state (prefix only); the prefix is itself a judged history
        let mut rep0 = Report::default();
        let root = run_history::<M, J>(spec, &[], judge, Some(&mut rep0)).await;
        out.absorb(spec, &[], rep0);
        out.add("impl_events_executed", root.events);
        out.add("transitions", spec.prefix.len() as u64);
        let mut seen: HashSet<u128> = HashSet::new();
        seen.insert(root.key);
        out.add("states", 1);
        if root.terminal {
            out.add("start_states_terminal", 1);
            return out;
        }
        let mut frontier: Vec<Vec<u16>> = vec![vec![]];
        let k = spec.alphabet.len();
        let mut cand: u64 = 0;
        for depth in 1..=spec.depth {
            if frontier.is_empty() {
                break;
            }
            if ctx.over_budget() {
                out.cap = Some(format!(
                    "{id} [{} | {}]: depth {depth} not started (wall budget); depth<={} complete",
                    spec.name,
                    spec.cfg.encode(),
                    depth - 1
                ));
                return out;
            }
            let mut next: Vec<Vec<u16>> = Vec::new();
            for parent in &frontier {
                for s in 0..k {
                    let mut hist = parent.clone();
                    hist.push(s as u16);
                    let mut rep = Report::default();
                    let o = run_history::<M, J>(spec, &hist, judge, Some(&mut rep)).await;
                    cand += 1;
                    if cand % 97 == 0 {
                        // determinism guard: the same history must reproduce the same key
                        let o2 = run_history::<M, J>(spec, &hist, judge, None).await;
                        if o2.key != o.key {
                            rep.viol(
                                format!("{id}:harness-nondeterministic"),
                                "two replays of one history ended in different states",
                            );
                        }
                        out.add("determinism_rechecks", 1);
                    }
                    out.add("impl_events_executed", o.events);
                    if !o.enabled {
                        out.add("events_disabled", 1);
                        continue;
                    }
                    out.absorb(spec, &hist, rep);
                    out.add("transitions", 1);
                    out.add("histories", 1);
                    if seen.insert(o.key) {
                        out.add("states", 1);
                        if o.nontrivial {
                            out.distinct.push(o.key as u64);
                        }
                        if o.terminal {
                            out.add("states_terminal", 1);
                        } else {
                            next.push(hist);
                        }
                    } else {
                        out.add("states_merged", 1);
                    }
                }
            }
            out.max_depth = depth as u64;
            frontier = next;
        }
        out
    })
}

/// Explore all specifications (in parallel, one thread per specification at a time) and
/// merge the results in specification order. Returns true if every one ran to its depth.
pub(super) fn run_specs<M, J>(ctx: &Ctx, specs: &[Spec], judge: &J) -> bool
where
    M: Default + Hash,
    J: Fn(&Cfg, &mut M, &Transition, Option<&mut Report>) + Sync,
{
    let outs: Mutex<Vec<(u64, SpecOut)>> = Mutex::new(Vec::new());
    common::par_for(specs.len() as u64, 1, |i| {
        let o = explore::<M, J>(ctx, &specs[i as usize], judge);
        outs.lock().unwrap().push((i, o));
    });
    let mut outs = outs.into_inner().unwrap();
    outs.sort_by_key(|e| e.0);
    let mut complete = true;
    let mut viols: Vec<(String, String, String, (u8, usize), u64)> = Vec::new();
    for (i, o) in outs {
        for (k, v) in &o.tally {
            ctx.add(k, *v);
        }
        ctx.add("evaluations", *o.tally.get("transitions").unwrap_or(&0));
        ctx.max("max_depth", o.max_depth);
        // keys are per configuration (the configuration is constant inside a specification)
        let ch = common::hash_of(&specs[i as usize].cfg.encode());
        ctx.distinct_many(o.distinct.into_iter().map(|k| k ^ ch));
        for s in o.samples {
            ctx.sample(s);
        }
        for (class, n) in &o.viol_totals {
            ctx.add(&format!("violating_histories[{class}]"), *n);
        }
        for (c, w, t, n) in o.viols {
            viols.push((c, w, t, (specs[i as usize].rank, n), i));
        }
        match o.cap {
            Some(c) => {
                complete = false;
                ctx.cap_hit(&c);
            }
            None => ctx.inc("explorations_completed"),
        }
    }
    // lowest rank, then shortest trace of every class first (Ctx keeps the first three per class)
    viols.sort_by(|a, b| (&a.0, a.3, a.4).cmp(&(&b.0, b.3, b.4)));
    for (c, w, t, _, _) in viols {
        ctx.violation(&c, w, t);
    }
    complete
}

/// Re-execute one trace without the explorer; every transition is judged and reported.
pub(super) fn replay_with<M, J>(ctx: &Ctx, trace: &str, judge: &J) -> String
where
    M: Default + Hash,
    J: Fn(&Cfg, &mut M, &Transition, Option<&mut Report>),
{
    let Some((cfg, evs)) = decode_trace(trace) else {
        return format!("unparsable trace: {trace}");
    };
    super::block_on_paused(async {
        let mut w = World::new(&cfg);
        let mut m = M::default();
        let mut obs = String::new();
        for ev in &evs {
            let tr = w.step(ev).await;
            let mut rep = Report::default();
            judge(&cfg, &mut m, &tr, Some(&mut rep));
            for (class, what) in &rep.viols {
                ctx.violation(class, what.clone(), trace.to_string());
            }
            obs.push_str(&format!("{} => ", ev.encode()));
            if !tr.enabled {
                obs.push_str("disabled; ");
                continue;
            }
            for u in &tr.upds {
                obs.push_str(&format!(
                    "[k{} src{} calls={:?} used={:?} next={:?} steer={:?} end={:?}] ",
                    u.kind, u.src, u.calls, u.used, u.next_update, u.steer, u.end
                ));
            }
            for u in &tr.upds {
                if let Some(t) = &u.snap {
                    obs.push_str(&format!(
                        "{{rootvar {:e} {:e} {:e} {:e} acc={} view={:?}}} ",
                        t.root_variance_base,
                        t.root_variance_linear,
                        t.root_variance_quadratic,
                        t.root_variance_cubic,
                        du(t.accumulated_steps),
                        u.view
                    ));
                }
            }
            for (k, u) in tr.upds.iter().enumerate() {
                if let Some(t) = &u.snap {
                    if u.used.is_some() && !(t.root_variance_base >= 0.0) {
                        obs.push_str(&format!(
                            "{{!! update #{k} (message of source {}) combined variance {:e}: used={:?} table(id,usable,[offset,freq,p00,p01,p10,p11,wander,delay],dispersion units)={:?}}} ",
                            u.src, t.root_variance_base, u.used, u.table
                        ));
                    }
                }
            }
            for v in &tr.views {
                obs.push_str(&format!(
                    "<s{} ph{} {:?} obs={:?}> ",
                    v.slot, v.phase, v.snap, v.obs
                ));
            }
            obs.push_str(&format!(
                "viol={:?}; ",
                rep.viols.iter().map(|v| v.0.clone()).collect::<Vec<_>>()
            ));
        }
        obs.push_str(&format!("final_key={:032x}", w.key(common::hash_of(&m))));
        obs
    })
}

// ------------------------------------------------------------------------------------
// C01 oracle
// ------------------------------------------------------------------------------------

#[derive(Default, Hash, Clone, Debug)]
pub(super) struct M01 {
    synced: bool,
    acc: i128,
    /// a leap vote has reached a majority at least once (vacuity bookkeeping only)
    leap_majority_seen: bool,
}

fn outside(win: (Option<i64>, Option<i64>), d: i64) -> bool {
    let d = d as i128;
    win.0.is_some_and(|f| d > f as i128) || win.1.is_some_and(|b| d < -(b as i128))
}

pub(super) fn judge01(cfg: &Cfg, m: &mut M01, tr: &Transition, mut rep: Option<&mut Report>) {
    for u in &tr.upds {
        let steps: Vec<i64> = u
            .calls
            .iter()
            .filter_map(|c| {
                if let Call::Step(d) = c {
                    Some(*d)
                } else {
                    None
                }
            })
            .collect();
        match &u.end {
            End::Exit => {
                if let Some(r) = rep.as_deref_mut() {
                    r.inc(if m.synced {
                        "exits_after_sync"
                    } else {
                        "exits_during_startup"
                    });
                    r.note = Some(format!(
                        "daemon exits ({})",
                        if m.synced { "synchronised" } else { "startup" }
                    ));
                    if !steps.is_empty() {
                        r.viol(
                            "C01:stepped-then-exited",
                            format!("update stepped by {steps:?} units and then exited"),
                        );
                    }
                }
            }
            End::Panic(site, msg) => {
                if let Some(r) = rep.as_deref_mut() {
                    r.inc("other_panics");
                    r.viol("C01:panic-not-threshold", format!("{site}: {msg}"));
                }
            }
            End::Ok => {}
        }
        for d in steps {
            let mag = (d as i128).abs();
            if !m.synced {
                if let Some(r) = rep.as_deref_mut() {
                    r.inc("steps_during_startup");
                    r.note = Some(format!("startup step {:.6} s", secs(d)));
                    if outside(cfg.startup, d) {
                        r.viol(
                            "C01:step-outside-startup-threshold",
                            format!("unsynchronised daemon stepped by {} units ({:.3} s), startup window {:?}", d, secs(d), cfg.startup),
                        );
                    }
                }
            } else {
                m.acc += mag;
                if let Some(r) = rep.as_deref_mut() {
                    r.inc("steps_after_sync");
                    r.note = Some(format!(
                        "post-sync step {:.6} s, accumulated {:.3} s",
                        secs(d),
                        m.acc as f64 / 4294967296.0
                    ));
                    if outside(cfg.single, d) {
                        r.viol(
                            "C01:step-outside-single-threshold",
                            format!("synchronised daemon stepped by {} units ({:.3} s), single-step window {:?}", d, secs(d), cfg.single),
                        );
                    }
                    if let Some(a) = cfg.acc {
                        if m.acc > a as i128 {
                            // fingerprint of the wrapped |i64::MIN| (D5, fixed in /repo by ca2ac96):
                            // the daemon's own published sum has gone negative; anything else is
                            // a plain failure of the accumulated check
                            let class = if u.view.3 < 0 {
                                "C01:i64min-step-evades-accumulated-threshold"
                            } else {
                                "C01:accumulated-threshold-exceeded"
                            };
                            r.viol(
                                class,
                                format!(
                                    "step of {} units brings the sum of |post-startup steps| to {} units > accumulated threshold {} units; reported accumulated_steps = {} units",
                                    d, m.acc, a, u.view.3
                                ),
                            );
                        } else if m.acc * 10 > a as i128 * 9 {
                            r.inc("steps_within_10pct_of_accumulated");
                        }
                    }
                }
            }
        }
        if u.end == End::Ok {
            if let Some(r) = rep.as_deref_mut() {
                match u.kind {
                    0 => r.inc(if u.used.is_some() {
                        "updates_with_consensus"
                    } else {
                        "updates_without_consensus"
                    }),
                    1 => r.inc("slew_ends"),
                    _ => {}
                }
                if u.next_update.is_some() {
                    r.inc("slews_started");
                }
            }
            if u.used.is_some() {
                m.synced = true;
                // status_update is called exactly when the leap vote of the selection is conclusive
                let majority = u.calls.iter().any(|c| matches!(c, Call::Status(_)));
                m.leap_majority_seen |= majority;
                if let Some(r) = rep.as_deref_mut() {
                    if !majority {
                        r.inc("consensus_without_leap_majority");
                    }
                    if !m.leap_majority_seen {
                        r.inc("consensus_while_no_leap_majority_ever");
                    }
                }
            }
            if let Some(r) = rep.as_deref_mut() {
                if u.kind == 0 && u.view.2 == m.synced {
                    // diagnostic only: the implementation's flag disagrees with the model
                    r.inc("startup_flag_differs_from_model");
                }
            }
        }
    }
    if let Some(r) = rep.as_deref_mut() {
        if tr.upds.is_empty() {
            r.inc("events_without_controller_update");
        }
    }
}

// ------------------------------------------------------------------------------------
// C01 alphabets, configurations, start states
// ------------------------------------------------------------------------------------

pub(super) const A: u8 = 0;
pub(super) const B: u8 = 1;
pub(super) const G: u8 = 2;

/// all three sources announced usable (what `NtpSource`/`OneWaySource` do first)
pub(super) fn prefix_usable() -> Vec<Ev> {
    vec![
        Ev::Usable { src: A, on: true },
        Ev::Usable { src: B, on: true },
        Ev::Usable { src: G, on: true },
    ]
}

/// source `s` taken through its 8-sample initialisation with near-zero offsets
pub(super) fn init_burst(s: u8) -> Ev {
    Ev::burst(s, 0, MS, S, 8, MS / 10, MS / 50)
}

fn starts01(cfg: &Cfg) -> Vec<(String, Vec<Ev>)> {
    let mut v = Vec::new();
    v.push(("fresh".to_string(), prefix_usable()));
    // A in its Kalman stage, daemon synchronised, nothing accumulated
    let mut p = prefix_usable();
    p.push(init_burst(A));
    v.push(("A-stable".to_string(), p));
    // synchronised on A, then A unusable and a first post-startup step taken on B:
    // accumulated just below the accumulated threshold (if the configuration has one)
    let mut p = prefix_usable();
    p.push(Ev::meas(A, 0, MS, S));
    p.push(Ev::Usable { src: A, on: false });
    let target = match cfg.acc {
        Some(a) => a - 50 * S,
        None => 650 * S,
    };
    p.push(Ev::meas(B, target, MS, S));
    v.push(("near-accumulated".to_string(), p));
    // a slew in flight
    let mut p = prefix_usable();
    if cfg.step_threshold > 1.0 {
        p.push(Ev::meas(A, 700 * S, MS, S));
    } else {
        p.push(init_burst(A));
        p.push(Ev::meas(A, 5 * MS, MS, S));
    }
    v.push(("mid-slew".to_string(), p));
    v
}

fn offsets_two_way() -> Vec<i64> {
    vec![
        0,
        S / 5,
        -S / 5,
        700 * S,
        -700 * S,
        1500 * S,
        -1500 * S,
        90_000 * S,
        -90_000 * S,
        -(1i64 << 62),
        1i64 << 62,
    ]
}

fn alphabet01_full() -> Vec<Ev> {
    let mut v = Vec::new();
    for src in [A, B] {
        for off in offsets_two_way() {
            for dt in [S, 64 * S] {
                v.push(Ev::meas(src, off, MS, dt));
            }
        }
    }
    // since the two-way offset is the exact mean of two differences (0dbba1a) it can take any value
    v.push(Ev::meas(A, i64::MIN, MS, S));
    v.push(Ev::meas(A, i64::MAX, MS, S));
    let mut og = offsets_two_way();
    og.push(i64::MIN);
    og.push(i64::MIN + 1); // what a SOCK sample with offset >= +2^31 s turns into
    og.push(i64::MAX);
    for off in og {
        for dt in [S, 64 * S] {
            v.push(Ev::meas(G, off, 0, dt));
        }
    }
    // bursts that carry a source through its initialisation
    v.push(init_burst(A));
    v.push(Ev::burst(B, 700 * S, MS, S, 8, MS / 10, MS / 50));
    v.push(init_burst(G));
    v.push(Ev::burst(G, i64::MIN, 0, S, 8, 0, 0));
    v.push(Ev::burst(G, -1500 * S, 0, S, 8, MS / 10, 0));
    // clock meddling: local time moved 1 s, monotonic time 100 s
    v.push(Ev::meas(A, 0, MS, S).with_mono(100_000_000_000));
    // a measurement that carries leap Unknown whatever the source table says (synchronising
    // without a leap majority, then an offset beyond every finite window)
    v.push(Ev::meas(A, 0, MS, S).with_leap(3));
    v.push(Ev::meas(A, 90_000 * S, MS, S).with_leap(3));
    // queued (not yet processed) measurements and single loop iterations
    v.push(Ev::meas(B, 700 * S, MS, S).deferred());
    v.push(Ev::meas(A, -700 * S, MS, S).deferred());
    v.push(Ev::Deliver);
    v.push(Ev::Tick);
    for s in [A, B, G] {
        v.push(Ev::Usable { src: s, on: false });
        v.push(Ev::Usable { src: s, on: true });
        v.push(Ev::Remove { src: s });
    }
    v
}

fn alphabet01_core() -> Vec<Ev> {
    vec![
        Ev::meas(A, 0, MS, S),
        Ev::meas(A, 700 * S, MS, S),
        Ev::meas(A, -700 * S, MS, 64 * S),
        Ev::meas(B, 700 * S, MS, S),
        Ev::meas(B, -1500 * S, MS, S),
        Ev::meas(G, 90_000 * S, 0, S),
        Ev::burst(G, i64::MIN, 0, S, 8, 0, 0),
        Ev::Usable { src: A, on: false },
        Ev::Remove { src: B },
        Ev::Tick,
    ]
}

/// Source table in which the one-way source (index 2) is a *periodic* one (PPS-like, period 1 s,
/// never part of the vote but merged into the estimate when it overlaps the voted interval).
pub(super) fn periodic_sources() -> Vec<SrcKind> {
    vec![
        SrcKind::Two,
        SrcKind::Two,
        SrcKind::One {
            noise: 1e-6,
            accuracy: 0.0,
            period: Some(1.0),
        },
    ]
}

/// Alphabet for the periodic table: the periodic source only ever reports sub-period offsets
/// (pps_source.rs builds them from a sub-second timestamp), the two-way sources vote.
fn alphabet01_periodic() -> Vec<Ev> {
    vec![
        Ev::meas(A, 0, MS, S),
        Ev::meas(A, S / 5, MS, S),
        Ev::meas(A, 700 * S, MS, 64 * S),
        Ev::meas(A, -1500 * S, MS, S),
        Ev::meas(B, 700 * S, MS, S),
        init_burst(A),
        Ev::meas(G, 0, 0, S),
        Ev::meas(G, 3 * S / 10, 0, S),
        Ev::meas(G, -S / 2, 0, S),
        Ev::meas(G, 3 * S / 4, 0, 64 * S),
        init_burst(G),
        Ev::burst(G, 2 * S / 5, 0, S, 8, MS / 10, 0),
        Ev::Tick,
        Ev::Usable { src: A, on: false },
    ]
}

fn configs01(quick: bool) -> Vec<Cfg> {
    let inf = (None, None);
    let sym = |s: i64| (Some(s * S), Some(s * S));
    // (startup, single)
    let windows: Vec<((Option<i64>, Option<i64>), (Option<i64>, Option<i64>))> = vec![
        (inf, inf),
        (inf, sym(1800)),
        (sym(1000), sym(1000)),
        (
            (Some(500 * S), Some(2000 * S)),
            (Some(2000 * S), Some(500 * S)),
        ),
        (sym(0), sym(0)),
        ((None, Some(1800 * S)), sym(1000)), // shipped defaults
        (sym(1800), (Some(1000 * S), None)), // backward single steps unlimited
    ];
    let accs = [None, Some(100 * S), Some(1800 * S)];
    let mut v = Vec::new();
    for (wi, (su, si)) in windows.iter().enumerate() {
        for (ai, acc) in accs.iter().enumerate() {
            // spread the remaining axes (quorum, algorithm step threshold, HashMap order) over the grid
            let variants: Vec<(usize, f64, u8)> = if quick {
                vec![match (wi + ai) % 3 {
                    0 => (1, 0.010, 0),
                    1 => (2, 0.010, 1),
                    _ => (1, 1800.0, 1),
                }]
            } else if (wi + ai) % 2 == 0 {
                vec![(1, 0.010, 0), (2, 1800.0, 1)]
            } else {
                vec![(2, 0.010, 1), (1, 1800.0, 0)]
            };
            for (min_agree, st, order) in variants {
                v.push(Cfg {
                    startup: *su,
                    single: *si,
                    acc: *acc,
                    min_agree,
                    order,
                    step_threshold: st,
                    ..Cfg::default()
                });
            }
        }
    }
    v
}

fn replay(ctx: &Ctx, trace: &str) -> String {
    replay_with::<M01, _>(ctx, trace, &judge01)
}

#[test]
fn check() {
    let ctx = Ctx::new("C01");
    if let Some(t) = common::replay_trace() {
        let a = replay(&ctx, &t);
        let b = replay(&ctx, &t);
        common::report_replay("C01", &a, &b, ctx.violation_count() > 0);
        return;
    }
    let quick = ctx.quick();
    let full = alphabet01_full();
    let core = alphabet01_core();
    let (d_full, d_core) = if quick { (2, 4) } else { (3, 5) };
    let d_per = if quick { 3 } else { 4 };
    let (dl_full, dl_core) = if quick { (1, 4) } else { (2, 4) };
    ctx.rule(&format!(
        "BFS over event histories of the real KalmanClockController + real source controllers (sources A,B two-way, G one-way), \
         per configuration (7 startup/single window pairs x accumulated in {{none,100 s,1800 s}} x {{min_agree, step_threshold, HashMap order}} variants) \
         and per start state (fresh / A in Kalman stage / accumulated = threshold-50 s / slew in flight): \
         all histories of <= {d_full} events (thorough: 3 for the first, 2 for the second variant of each window/accumulated pair) over the {}-symbol full alphabet (measurements of A,B,G with offsets 0,+-0.2,+-700,+-1500,+-90000,+-2^30 s, \
         G also i64::MIN, i64::MIN+1, i64::MAX units, A also i64::MIN/MAX, dt 1 s|64 s; 8-sample bursts; clock meddling; two measurements with leap Unknown; queued measurement + single delivery; slew-end timer; usable on/off; remove) \
         and of <= {d_core} events over the {}-symbol core alphabet; plus, for three of the configurations with the one-way source made periodic (period 1 s), \
         all histories of <= {d_per} events over a 14-symbol alphabet (sub-period offsets of the periodic source, voting two-way sources); plus the leap indicator as an axis of the source table: \
         every configuration again with all three sources reporting leap Unknown (4 start states built with that leap code; <= {dl_full} events full / <= {dl_core} core) and with A=Leap61, B=Leap59, G=Unknown \
         (start state: A and B initialised while not yet usable, then announced, first consensus contains both = tie; <= 2 events full / <= {dl_core} core; plus fresh / core), i.e. synchronised states in which the leap vote never had a majority; the default table (all NoWarning) is the majority case. States deduplicated on the exact bit pattern of all controller/source/channel/timer/clock state. \
         Distinct & non-trivial = a distinct end state reached by a transition in which the controller was invoked.",
        full.len(),
        core.len()
    ));
    ctx.assume("the mock clock applies steps and frequency changes instantly and never fails; local time between events advances exactly by the event's dt");
    ctx.assume("under cfg(test) the threshold check panics with 'Threshold exceeded' where the shipped binary calls std::process::exit(SOFTWARE); that panic is treated as the exit");
    ctx.assume("HashMap iteration order of the controller's source table is forced (by re-creating the controller) to ascending or descending id, both are explored");
    ctx.assume("a step of exactly the threshold value is accepted by the oracle either way (the statement does not fix the boundary)");
    ctx.note(
        "alphabet_full",
        &full
            .iter()
            .map(|e| e.encode())
            .collect::<Vec<_>>()
            .join(" "),
    );
    ctx.note(
        "alphabet_core",
        &core
            .iter()
            .map(|e| e.encode())
            .collect::<Vec<_>>()
            .join(" "),
    );
    // how the extreme one-way offsets of the alphabet arise from real timestamp arithmetic
    // (evaluated with the crate's own operators, recorded for the reader)
    {
        let t = NtpTimestamp::from_fixed_int(1u64 << 63);
        let wrapper = du(NtpTimestamp::from_fixed_int(0) - t); // OneWaySourceControllerWrapper: sender_ts - receiver_ts
        // sock_source.rs (HEAD 9c8a557): sender_ts = time + from_seconds(sample.offset), receiver_ts = time
        let sock = du((t + NtpDuration::from_seconds(-2_147_483_648.0)) - t);
        // sock_source.rs before 7b8e8e3: sender_ts = time - from_seconds(sample.offset)
        let sock_old = du((t - NtpDuration::from_seconds(2_147_483_648.0)) - t);
        ctx.note(
            "extreme_offset_reachability",
            &format!(
                "one-way wrapper: sender_ts - receiver_ts for timestamps 2^31 s apart = {wrapper} units; SOCK sample offset -2^31 s -> {sock} units \
                 (before 7b8e8e3: sample offset +2^31 s -> {sock_old} units); to_seconds() of both i64::MIN and i64::MIN+1 is below -2^31, so \
                 NtpDuration::from_seconds(change) of the resulting correction saturates to i64::MIN; since 0dbba1a (exact mean) two-way offsets span the whole i64 range too"
            ),
        );
    }
    let cfgs = configs01(quick);
    ctx.set("configurations", cfgs.len() as u64);
    let mut specs = Vec::new();
    for (ci, cfg) in cfgs.iter().enumerate() {
        // thorough: the second variant of every (window, accumulated) pair gets the full alphabet
        // one level shallower (keeps the tier within ~15 min on a shared machine)
        let d_full = if !quick && ci % 2 == 1 {
            d_full - 1
        } else {
            d_full
        };
        for (name, prefix) in starts01(cfg) {
            for (alpha, depth, tag) in [(&full, d_full, "full"), (&core, d_core, "core")] {
                specs.push(Spec {
                    rank: 0,
                    name: format!("{name}/{tag}"),
                    cfg: cfg.clone(),
                    prefix: prefix.clone(),
                    alphabet: alpha.clone(),
                    depth,
                });
            }
        }
    }
    // leap indicator as an axis of the source table: "synchronised, but the leap vote has no
    // majority" (every used source reports Unknown; or one Leap61 against one Leap59 under a
    // quorum of 2). Every window/accumulated configuration is explored again under both
    // constellations, the start states being built with the same leap codes.
    let mut leap_specs = 0u64;
    for cfg in &cfgs {
        let unknown = Cfg {
            leaps: vec![3, 3, 3],
            ..cfg.clone()
        };
        for (name, prefix) in starts01(&unknown) {
            for (alpha, depth, tag) in [(&full, dl_full, "full"), (&core, dl_core, "core")] {
                specs.push(Spec {
                    rank: 0,
                    name: format!("leap-all-unknown/{name}/{tag}"),
                    cfg: unknown.clone(),
                    prefix: prefix.clone(),
                    alphabet: alpha.clone(),
                    depth,
                });
                leap_specs += 1;
            }
        }
        // A says Leap61, B says Leap59, G Unknown. A vote only ties when A and B are both selected,
        // and two usable sources that disagree are never selected, so the tie is set up the way
        // it arises in practice: both sources finish their initialisation before they are
        // announced usable; the first consensus then contains both (tie, no majority). Dropping
        // or disabling one of them afterwards lets the other one steer alone.
        let tie = Cfg {
            leaps: vec![1, 2, 3],
            ..cfg.clone()
        };
        let tie_synced = vec![
            Ev::Usable { src: G, on: true },
            init_burst(A),
            init_burst(B),
            Ev::Usable { src: A, on: true },
            Ev::Usable { src: B, on: true },
            Ev::meas(A, 0, MS, S),
        ];
        for (name, prefix, alpha, depth, tag) in [
            ("tie-synced", tie_synced.clone(), &full, 2, "full"),
            ("tie-synced", tie_synced, &core, dl_core, "core"),
            ("fresh", prefix_usable(), &core, dl_core, "core"),
        ] {
            specs.push(Spec {
                rank: 0,
                name: format!("leap-tie/{name}/{tag}"),
                cfg: tie.clone(),
                prefix,
                alphabet: alpha.clone(),
                depth,
            });
            leap_specs += 1;
        }
    }
    ctx.set("leap_constellation_explorations", leap_specs);
    // periodic one-way source instead of G: three threshold configurations, two start states
    let periodic = alphabet01_periodic();
    let mut picked: Vec<&Cfg> = Vec::new();
    for want in [
        ((None, None), (None, None), Some(100 * S)), // unlimited windows, accumulated 100 s
        (
            (None, Some(1800 * S)),
            (Some(1000 * S), Some(1000 * S)),
            None,
        ), // shipped defaults
        (
            (Some(500 * S), Some(2000 * S)),
            (Some(2000 * S), Some(500 * S)),
            Some(1800 * S),
        ), // asymmetric
    ] {
        if let Some(c) = cfgs.iter().find(|c| (c.startup, c.single, c.acc) == want) {
            picked.push(c);
        }
    }
    for cfg in picked {
        let cfg = Cfg {
            sources: periodic_sources(),
            ..cfg.clone()
        };
        for (name, prefix) in starts01(&cfg).into_iter().take(2) {
            specs.push(Spec {
                rank: 0,
                name: format!("{name}/periodic"),
                cfg: cfg.clone(),
                prefix,
                alphabet: periodic.clone(),
                depth: d_per,
            });
        }
    }
    ctx.note(
        "alphabet_periodic",
        &periodic
            .iter()
            .map(|e| e.encode())
            .collect::<Vec<_>>()
            .join(" "),
    );
    ctx.set("explorations", specs.len() as u64);
    let complete = run_specs::<M01, _>(&ctx, &specs, &judge01);
    ctx.exhaustive(complete);
    ctx.finish();
}
