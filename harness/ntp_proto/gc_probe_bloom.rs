//! Group gc probe into `crate::packet::v5::server_reference_id` (read-only view of the
//! client-side bloom filter transfer state).
use super::super::RemoteBloomFilter;

/// (filter bytes, last_requested (offset, client cookie), next_to_request, is_filled)
pub(crate) fn raw(f: &RemoteBloomFilter) -> (Vec<u8>, Option<(u16, [u8; 8])>, u16, bool) {
    (
        f.filter.0.to_vec(),
        f.last_requested.map(|(o, c)| (o, c.0)),
        f.next_to_request,
        f.is_filled,
    )
}
