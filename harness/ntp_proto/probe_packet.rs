#[cfg(any(not(verif_select), verif_gh))]
#[path = "/verif/harness/ntp_proto/gh_probe_packet.rs"]
pub(crate) mod gh;
pub(crate) use super::extension_fields::verif_probe as extension_fields_probe; // packet::extension_fields is private: crate::packet::verif_probe::extension_fields_probe
