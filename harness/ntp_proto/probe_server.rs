#[cfg(any(not(verif_select), verif_gf))]
#[path = "/verif/harness/ntp_proto/gf_probe_server.rs"]
pub(crate) mod gf;
