#[cfg(any(not(verif_select), verif_gj))]
#[path = "/verif/harness/ntp_proto/gj_probe_nts.rs"]
pub(crate) mod gj;
pub(crate) use super::messages::verif_probe as messages_probe; // nts::messages is private: crate::nts::verif_probe::messages_probe
