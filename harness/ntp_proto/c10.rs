//! C10 — Poll intervals stay within configured and requested bounds.
//!
//! Engine E-SEQ on the REAL `NtpSource` (rig shared with C09, see `c09::rig`).
//!
//! Part A (stub controller): for every (min <= max) over {0,4,6,10,17} and NTPv4 / NTPv5
//! (plain; NTS in the thorough tier) a breadth-first search to fixpoint over histories of
//!   T            timer fires (virtual time advanced by the requested timer)
//!   N            normal answer (NTPv5: echoes the client's poll, as the real server does)
//!   Q<i>         NTPv5 normal answer whose poll field requests {min-1, max, max+2, 126, 127}[i]
//!   RATE         v4 kiss code RATE / v5 stratum 0 with poll own+1
//!   RATEBIG      v5 stratum 0 with poll 126
//!   D<j>         the clock filter (stub) now desires {min-1, min, mid, max, max+1, -128, 127}[j]
//! Part B (real Kalman source controller obtained through the production
//! `TimeSyncControllerWrapper::add_source`): for every (min <= initial <= max) over
//! {0,4,6,10,17}: an initialisation prefix of 8 answered polls, then ALL words of length n over
//! poll rounds {A steady, K small wobble, J offset jump, W long delay, U unanswered, R RATE,
//! Q v5 request max+2}, with poll-interval hysteresis 1 (every measurement may move the
//! desire) and, thorough, 2 and the default 16.
//!
//! Oracle (statement): every sent poll exponent p has min <= p <= max(max, largest interval a
//! valid answer asked for so far); the SetTimer issued with the Send lies in
//! [1.01, 1.05] * 2^p s; the real filter's desire always lies in [min, max].
//! Environment assumption made explicit: sentence 1 presupposes sentence 3. When the STUB
//! desires more than max (impossible for the real filter) the source passes it through; those
//! polls are counted (`polls_excused_by_stub_desire`) and bounded by the stub's own desire
//! instead. Desires below min are NOT excused: the source must (and does) clamp them.
use std::collections::{BTreeMap, HashSet};
use std::sync::atomic::{AtomicU64, Ordering};
use std::sync::{Arc, Mutex};
use std::time::Duration;

use super::c09::rig::{self, Cfg, Kiss, Rig, Stub, StubShared, TimerOut, Ver, View};
use super::common::{self, Ctx};
use crate::algorithm::{
    AlgorithmConfig, KalmanClockController, SourceController, TimeSyncController,
    TimeSyncControllerWrapper,
};
use crate::config::SynchronizationConfig;
use crate::time_types::{NtpDuration, NtpTimestamp};
use crate::{ClockId, NtpClock, NtpLeapIndicator};

const GRID: [i8; 5] = [0, 4, 6, 10, 17];

type Classes = Mutex<BTreeMap<String, u64>>;

fn bump(classes: Option<&Classes>, k: &str, n: u64) {
    if let Some(c) = classes {
        *c.lock().unwrap().entry(k.to_string()).or_insert(0) += n;
    }
}

// ---------------------------------------------------------------------- shared oracle

/// `t` within [1.01, 1.05] * 2^p seconds (exact integer nanoseconds; 1 ppb slack on the
/// upper edge because 1.05 is not a binary fraction). Exponents above 31 are not
/// representable as a timer at all; for those only ">= 1.01 * 2^31 s" is demanded.
fn timer_ok(p: i8, t: Duration) -> bool {
    let e = p.clamp(0, 31) as u32;
    let base: u128 = (1u128 << e) * 1_000_000_000;
    let lo = base * 101 / 100;
    let hi = base * 105 / 100;
    let hi = hi + hi / 1_000_000_000 + 1;
    let ns = t.as_nanos();
    if p > 31 {
        ns >= lo
    } else {
        ns >= lo && ns <= hi
    }
}

struct Bounds {
    /// largest poll exponent a valid answer asked for so far
    requested: i16,
    /// largest poll exponent that was only explained by an out-of-range (> max) desire of the
    /// STUB controller; once such a poll was used, "never faster than it just did" (C09) may
    /// legitimately keep the source there, so the excuse persists
    excused: i16,
}

impl Bounds {
    fn check_send(
        &mut self,
        cfg: &Cfg,
        poll: i8,
        timer: Duration,
        stub_desire: Option<i8>,
        ctx: Option<&Ctx>,
        classes: Option<&Classes>,
        trace: &dyn Fn() -> String,
    ) {
        bump(classes, "polls_sent", 1);
        if poll == cfg.min {
            bump(classes, "polls_at_min", 1);
        }
        if poll == cfg.max {
            bump(classes, "polls_at_max", 1);
        }
        if poll > cfg.max {
            bump(classes, "polls_above_max_by_request", 1);
        }
        if poll < cfg.min {
            if let Some(c) = ctx {
                c.violation(
                    "C10:poll-below-min",
                    format!("sent poll exponent {poll} < configured minimum {} (filter desire {stub_desire:?})", cfg.min),
                    trace(),
                );
            }
        }
        let legit = (cfg.max as i16).max(self.requested);
        if let Some(d) = stub_desire {
            if (d as i16) > legit && poll as i16 > legit && poll as i16 <= d as i16 {
                self.excused = self.excused.max(poll as i16);
            }
        }
        let ub = legit.max(self.excused);
        if poll as i16 > legit && poll as i16 <= ub {
            bump(classes, "polls_excused_by_stub_desire", 1);
        }
        if poll as i16 > ub {
            if let Some(c) = ctx {
                c.violation(
                    "C10:poll-above-max",
                    format!(
                        "sent poll exponent {poll} > max(configured maximum {}, largest server-requested {})",
                        cfg.max,
                        if self.requested == i16::MIN { "none".to_string() } else { self.requested.to_string() }
                    ),
                    trace(),
                );
            }
        }
        if poll > 31 {
            bump(classes, "timers_beyond_representable", 1);
        }
        if !timer_ok(poll, timer) {
            if let Some(c) = ctx {
                c.violation(
                    "C10:timer-out-of-range",
                    format!(
                        "next poll scheduled {} x 2^{poll} s after a poll with exponent {poll}",
                        if timer.as_secs_f64() / ((1u64 << poll.clamp(0, 31)) as f64) < 1.01 {
                            "less than 1.01"
                        } else {
                            "more than 1.05"
                        }
                    ),
                    trace(),
                );
            }
        }
    }
}

// ---------------------------------------------------------------------- part A

#[derive(Clone, Copy, PartialEq, Eq, Hash, Debug, PartialOrd, Ord)]
enum Ev {
    T,
    N,
    Q(u8),
    Rate,
    RateBig,
    D(u8),
}

impl Ev {
    fn code(self) -> String {
        match self {
            Ev::T => "T".into(),
            Ev::N => "N".into(),
            Ev::Q(i) => format!("Q{i}"),
            Ev::Rate => "RATE".into(),
            Ev::RateBig => "RATEBIG".into(),
            Ev::D(j) => format!("D{j}"),
        }
    }
    fn parse(s: &str) -> Option<Ev> {
        Some(match s {
            "T" => Ev::T,
            "N" => Ev::N,
            "RATE" => Ev::Rate,
            "RATEBIG" => Ev::RateBig,
            _ if s.starts_with('Q') => Ev::Q(s[1..].parse().ok()?),
            _ if s.starts_with('D') => Ev::D(s[1..].parse().ok()?),
            _ => return None,
        })
    }
}

fn request_values(cfg: &Cfg) -> Vec<i8> {
    vec![cfg.min - 1, cfg.max, cfg.max + 2, 126, 127]
}

fn desire_values(cfg: &Cfg) -> Vec<i8> {
    let mut v = vec![
        cfg.min - 1,
        cfg.min,
        ((cfg.min as i16 + cfg.max as i16) / 2) as i8,
        cfg.max,
        cfg.max + 1,
        -128,
        127,
    ];
    let mut seen = HashSet::new();
    v.retain(|x| seen.insert(*x));
    v
}

fn alphabet_a(cfg: &Cfg, quick: bool) -> Vec<Ev> {
    // quick tier: the widest symbols (request 127, desires -128 / 127, RATEBIG) are left to
    // the thorough tier; NTPv5 configurations wider than 6 steps additionally drop the
    // request "max" and the desires "min" / "mid" (their ladders are long, the dropped
    // symbols are covered by the narrow configurations)
    let wide = quick && cfg.ver == Ver::V5 && cfg.max - cfg.min > 6;
    let mut v = vec![Ev::T, Ev::N, Ev::Rate];
    if cfg.ver == Ver::V5 {
        for i in 0..5u8 {
            let keep = if !quick {
                true
            } else if wide {
                i == 0 || i == 2 || i == 3
            } else {
                i < 4
            };
            if keep {
                v.push(Ev::Q(i));
            }
        }
        if !quick {
            v.push(Ev::RateBig);
        }
    }
    let dv = desire_values(cfg);
    for (j, d) in dv.iter().enumerate() {
        let keep = if !quick {
            true
        } else if wide {
            *d == cfg.min - 1 || *d == cfg.max || *d == cfg.max + 1
        } else {
            *d != -128 && *d != 127
        };
        if keep {
            v.push(Ev::D(j as u8));
        }
    }
    v
}

#[derive(Clone, Debug, PartialEq, Eq, Hash, PartialOrd, Ord)]
struct KeyA {
    view: View,
    desire: i8,
    requested: i16,
    excused: i16,
    pending: bool,
    terminal: bool,
}

struct EndA {
    key: KeyA,
    applied: bool,
    obs: String,
}

fn fmt_a(cfg: &Cfg, h: &[Ev]) -> String {
    format!(
        "A;{};{}",
        cfg.tag(),
        h.iter().map(|e| e.code()).collect::<Vec<_>>().join(",")
    )
}

async fn replay_a(cfg: &Cfg, hist: &[Ev], ctx: Option<&Ctx>, classes: Option<&Classes>) -> EndA {
    let shared = Arc::new(StubShared::default());
    shared.desire.store(cfg.min as i32, Ordering::Relaxed);
    let mut rig = Rig::new(*cfg, Stub(shared.clone()));
    let mut b = Bounds {
        requested: i16::MIN,
        excused: i16::MIN,
    };
    let mut pending = false;
    let mut terminal = false;
    let mut applied = true;
    let mut obs = String::new();
    let dv = desire_values(cfg);
    let qv = request_values(cfg);
    let n = hist.len();
    for (i, ev) in hist.iter().enumerate() {
        let last = i + 1 == n;
        let check = if last { ctx } else { None };
        let cls = if last { classes } else { None };
        let trace = || fmt_a(cfg, &hist[..=i]);
        if terminal {
            applied = false;
            break;
        }
        match *ev {
            Ev::D(j) => {
                let Some(&d) = dv.get(j as usize) else {
                    applied = false;
                    break;
                };
                if shared.desire.load(Ordering::Relaxed) == d as i32 {
                    applied = false;
                    break;
                }
                shared.desire.store(d as i32, Ordering::Relaxed);
                if d < cfg.min || d > cfg.max {
                    bump(cls, "stub_desire_out_of_range_set", 1);
                }
            }
            Ev::T => {
                let d = shared.desire.load(Ordering::Relaxed) as i8;
                match rig.timer().await {
                    TimerOut::Sent { poll, timer, .. } => {
                        if d < cfg.min {
                            bump(cls, "polls_with_stub_desire_below_min", 1);
                        }
                        b.check_send(cfg, poll, timer, Some(d), check, cls, &trace);
                        pending = true;
                        if last {
                            obs = format!("sent poll {poll} timer_ok {}", timer_ok(poll, timer));
                        }
                    }
                    TimerOut::Reset | TimerOut::Demobilize => {
                        terminal = true;
                        bump(cls, "timer_terminal", 1);
                        if last {
                            obs = "terminal".into();
                        }
                    }
                    TimerOut::Odd(s) => {
                        terminal = true;
                        if let Some(c) = check {
                            c.violation(
                                "C10:send-without-single-timer",
                                format!("handle_timer returned {s}"),
                                trace(),
                            );
                        }
                    }
                }
            }
            a => {
                if !(pending && rig.view().pending) {
                    applied = false;
                    break;
                }
                let req = rig.req.clone().expect("request");
                let wire = match a {
                    Ev::N => Some(rig::normal(&req, req.poll as u8, false)),
                    Ev::Q(i) => match (req.ver, qv.get(i as usize)) {
                        (5, Some(&q)) => Some(rig::normal(&req, q as u8, false)),
                        _ => None,
                    },
                    // (an NTPv5 "poll own+1" at own = 126 would be 127 = DENY, not RATE)
                    Ev::Rate => {
                        if req.ver == 5 && req.poll >= 126 {
                            None
                        } else {
                            rig::kiss(&req, Kiss::Rate)
                        }
                    }
                    Ev::RateBig => {
                        if req.ver == 5 && req.poll < 126 {
                            rig::kiss(&req, Kiss::Rate).map(|mut w| {
                                w.poll = 126;
                                w
                            })
                        } else {
                            None
                        }
                    }
                    _ => unreachable!(),
                };
                let Some(wire) = wire else {
                    applied = false;
                    break;
                };
                let m0 = shared.measurements.load(Ordering::Relaxed);
                let (acts, _) = rig.answer(&wire);
                let m1 = shared.measurements.load(Ordering::Relaxed);
                if req.ver == 5 {
                    // the poll field of every valid NTPv5 answer is an interval the server asked for
                    b.requested = b.requested.max(wire.poll as i8 as i16);
                }
                match a {
                    Ev::N | Ev::Q(_) => {
                        if m1 > m0 {
                            pending = false;
                            bump(cls, "normal_usable", 1);
                            if matches!(a, Ev::Q(_)) {
                                bump(cls, "v5_poll_requests", 1);
                            }
                        } else {
                            bump(cls, "normal_refused", 1);
                        }
                    }
                    _ => bump(cls, "rate_answers", 1),
                }
                if acts.demobilize + acts.reset > 0 {
                    terminal = true;
                }
                if last {
                    obs = format!("{acts:?} meas+{}", m1 - m0);
                }
            }
        }
    }
    let mut view = rig.view();
    view.tries = view.tries.min(3);
    // Reach abstraction: `handle_timer` reads the register only through is_reachable() and
    // unanswered_polls() = trailing_zeros; poll() shifts left and received_packet() sets bit
    // 0, so the position of the lowest set bit alone decides every future action.
    view.reach = if view.reach == 0 {
        8
    } else {
        view.reach.trailing_zeros() as u8
    };
    view.stratum = 0;
    view.refid.clear();
    EndA {
        key: KeyA {
            view,
            desire: shared.desire.load(Ordering::Relaxed) as i8,
            requested: b.requested,
            excused: b.excused,
            pending,
            terminal,
        },
        applied,
        obs,
    }
}

#[derive(Clone, Default)]
struct BfsOut {
    states: u64,
    transitions: u64,
    depth: u64,
    fixpoint: bool,
}

/// Level-parallel BFS over all part-A configurations at once (one barrier per depth).
fn explore_all_a(ctx: &Ctx, cfgs: &[(Cfg, Vec<Ev>)], classes: &Classes) -> Vec<BfsOut> {
    let mut outs = vec![
        BfsOut {
            states: 1,
            ..BfsOut::default()
        };
        cfgs.len()
    ];
    let mut seen: HashSet<(usize, KeyA)> = HashSet::new();
    let mut frontier: Vec<(usize, Vec<Ev>)> = Vec::new();
    for (ci, (cfg, _)) in cfgs.iter().enumerate() {
        let root = super::block_on_paused(replay_a(cfg, &[], None, None));
        seen.insert((ci, root.key));
        frontier.push((ci, vec![]));
    }
    let mut depth = 0u64;
    while !frontier.is_empty() {
        if ctx.over_budget() {
            let mut open: Vec<usize> = frontier.iter().map(|f| f.0).collect();
            open.dedup();
            ctx.cap_hit(&format!(
                "A: depth {} not started (budget); depth <= {} complete for every configuration; not yet at fixpoint: {}",
                depth + 1,
                depth,
                open.iter().map(|i| cfgs[*i].0.tag()).collect::<Vec<_>>().join(" ")
            ));
            break;
        }
        let found: Mutex<Vec<(usize, Vec<Ev>, KeyA)>> = Mutex::new(Vec::new());
        let stats: Mutex<Vec<u64>> = Mutex::new(vec![0; cfgs.len()]);
        common::par_for(frontier.len() as u64, 8, |i| {
            let (ci, base) = &frontier[i as usize];
            let (cfg, events) = &cfgs[*ci];
            let mut local = Vec::new();
            let lc: Classes = Mutex::new(BTreeMap::new());
            let mut t = 0u64;
            rig::on_paused_rt(async {
                for ev in events {
                    let mut h = base.clone();
                    h.push(*ev);
                    let end = replay_a(cfg, &h, Some(ctx), Some(&lc)).await;
                    if end.applied {
                        t += 1;
                        local.push((*ci, h, end.key));
                    }
                }
            });
            found.lock().unwrap().extend(local);
            stats.lock().unwrap()[*ci] += t;
            let mut g = classes.lock().unwrap();
            for (k, v) in lc.into_inner().unwrap() {
                *g.entry(k).or_insert(0) += v;
            }
        });
        for (ci, t) in stats.into_inner().unwrap().into_iter().enumerate() {
            outs[ci].transitions += t;
        }
        let mut found = found.into_inner().unwrap();
        found.sort_by(|a, b| (a.0, &a.1).cmp(&(b.0, &b.1)));
        let mut next = Vec::new();
        depth += 1;
        for (ci, h, k) in found {
            let terminal = k.terminal;
            if seen.insert((ci, k)) {
                outs[ci].states += 1;
                if !terminal {
                    outs[ci].depth = depth;
                    next.push((ci, h));
                }
            }
        }
        frontier = next;
    }
    for (ci, o) in outs.iter_mut().enumerate() {
        o.fixpoint = !frontier.iter().any(|f| f.0 == ci);
    }
    ctx.distinct_many(
        seen.iter()
            .map(|(ci, k)| common::hash_of(&("A", &cfgs[*ci].0, k))),
    );
    outs
}

// ---------------------------------------------------------------------- part B (real Kalman filter)

#[derive(Clone, Default)]
struct Clk;

impl NtpClock for Clk {
    type Error = std::io::Error;
    fn now(&self) -> Result<NtpTimestamp, Self::Error> {
        Ok(NtpTimestamp::default())
    }
    fn set_frequency(&self, _: f64) -> Result<NtpTimestamp, Self::Error> {
        Ok(NtpTimestamp::default())
    }
    fn get_frequency(&self) -> Result<f64, Self::Error> {
        Ok(0.0)
    }
    fn step_clock(&self, _: NtpDuration) -> Result<NtpTimestamp, Self::Error> {
        Ok(NtpTimestamp::default())
    }
    fn disable_ntp_algorithm(&self) -> Result<(), Self::Error> {
        Ok(())
    }
    fn error_estimate_update(&self, _: NtpDuration, _: NtpDuration) -> Result<(), Self::Error> {
        Ok(())
    }
    fn status_update(&self, _: NtpLeapIndicator) -> Result<(), Self::Error> {
        Ok(())
    }
}

type Wrapper = TimeSyncControllerWrapper<KalmanClockController<Clk>>;
type KalmanCtl = <Wrapper as TimeSyncController>::NtpSourceController;

const ROUNDS: [char; 7] = ['A', 'K', 'J', 'W', 'U', 'R', 'Q'];
const PREFIXES: [&str; 2] = ["AAAAAAAA", "AKAKAKAK"];

fn fmt_b(cfg: &Cfg, hyst: i32, prefix: &str, word: &str) -> String {
    format!("B;{};h{hyst};{prefix};{word}", cfg.tag())
}

struct EndB {
    obs: String,
    desires: Vec<i8>,
}

/// One history on the real filter. All steps are checked (a history is executed once).
async fn run_b(
    cfg: &Cfg,
    hyst: i32,
    prefix: &str,
    word: &str,
    ctx: Option<&Ctx>,
    classes: Option<&Classes>,
) -> EndB {
    let algo = AlgorithmConfig {
        poll_interval_hysteresis: hyst,
        ..AlgorithmConfig::default()
    };
    let wrapper: Wrapper =
        TimeSyncController::new(Clk, SynchronizationConfig::default(), algo).expect("controller");
    let ctl: KalmanCtl = wrapper.add_source(ClockId::new(), cfg.source_config());
    let mut rig = Rig::new(*cfg, ctl);
    let mut b = Bounds {
        requested: i16::MIN,
        excused: i16::MIN,
    };
    let mut desires = Vec::new();
    let mut prev = rig.controller().desired_poll_interval().as_log();
    let mut obs = String::new();
    let mut wobble = 1i64;
    let all: Vec<char> = prefix.chars().chain(word.chars()).collect();
    let plen = prefix.len();
    'outer: for (i, sym) in all.iter().enumerate() {
        let trace = || {
            let w: String = all[plen.min(i + 1)..(i + 1)].iter().collect();
            let p: String = all[..plen.min(i + 1)].iter().collect();
            fmt_b(cfg, hyst, &p, &w)
        };
        let check_desire = |rig: &Rig<KalmanCtl>, prev: &mut i8, desires: &mut Vec<i8>| {
            let d = rig.controller().desired_poll_interval().as_log();
            desires.push(d);
            if d < cfg.min || d > cfg.max {
                if let Some(c) = ctx {
                    c.violation(
                        "C10:filter-desire-out-of-limits",
                        format!("clock filter desires poll exponent {d}, configured limits [{}, {}] (initial {})", cfg.min, cfg.max, cfg.init),
                        trace(),
                    );
                }
            }
            if i >= plen {
                if d > *prev {
                    bump(classes, "filter_desire_up", 1);
                } else if d < *prev {
                    bump(
                        classes,
                        if d == cfg.min && *prev > cfg.min + 1 {
                            "filter_desire_reset_to_min"
                        } else {
                            "filter_desire_down"
                        },
                        1,
                    );
                }
                if d == cfg.max && cfg.max > cfg.min {
                    bump(classes, "filter_desire_at_max", 1);
                }
            }
            *prev = d;
        };
        match rig.timer().await {
            TimerOut::Sent { poll, timer, .. } => {
                b.check_send(cfg, poll, timer, None, ctx, classes, &trace);
                obs.push_str(&format!("{poll}"));
            }
            TimerOut::Reset | TimerOut::Demobilize => {
                bump(classes, "timer_terminal", 1);
                obs.push('!');
                break 'outer;
            }
            TimerOut::Odd(s) => {
                if let Some(c) = ctx {
                    c.violation(
                        "C10:send-without-single-timer",
                        format!("handle_timer returned {s}"),
                        trace(),
                    );
                }
                break 'outer;
            }
        }
        check_desire(&rig, &mut prev, &mut desires);
        let req = rig.req.clone().expect("request");
        let wire = match sym {
            'A' => Some(rig::normal(&req, req.poll as u8, false)),
            'K' => {
                wobble = -wobble;
                let mut w = rig::normal(&req, req.poll as u8, false);
                w.offset_ns = 3_000_000 * wobble;
                Some(w)
            }
            'J' => {
                let mut w = rig::normal(&req, req.poll as u8, false);
                w.offset_ns = 80_000_000;
                Some(w)
            }
            'W' => {
                let mut w = rig::normal(&req, req.poll as u8, false);
                w.delay_ns = 40_000_000;
                Some(w)
            }
            'U' => None,
            'R' => rig::kiss(&req, Kiss::Rate),
            'Q' => {
                if req.ver == 5 {
                    Some(rig::normal(&req, (cfg.max + 2) as u8, false))
                } else {
                    // NTPv4 has no poll request: a plain normal answer
                    Some(rig::normal(&req, req.poll as u8, false))
                }
            }
            _ => None,
        };
        if let Some(w) = wire {
            if req.ver == 5 {
                b.requested = b.requested.max(w.poll as i8 as i16);
            }
            let (acts, _) = rig.answer(&w);
            if !acts.is_empty() {
                obs.push('?');
            }
            check_desire(&rig, &mut prev, &mut desires);
        }
        obs.push_str(&format!("/{} ", prev));
    }
    drop(rig);
    drop(wrapper);
    EndB { obs, desires }
}

fn words(k: usize, n: usize, alphabet: &[char]) -> impl Iterator<Item = String> + '_ {
    common::product(k, n).map(move |w| w.iter().map(|i| alphabet[*i]).collect())
}

fn run_part_b(ctx: &Ctx, classes: &Classes) {
    let quick = ctx.quick();
    let n = if quick { 4 } else { 6 };
    let hysts: &[i32] = if quick { &[1] } else { &[1, 2] };
    let mut cfgs = Vec::new();
    for &min in &GRID {
        for &init in &GRID {
            for &max in &GRID {
                if min <= init && init <= max {
                    cfgs.push(Cfg {
                        nts: false,
                        ver: Ver::V4,
                        min,
                        init,
                        max,
                    });
                    if !quick || (init == min || init == max) {
                        cfgs.push(Cfg {
                            nts: false,
                            ver: Ver::V5,
                            min,
                            init,
                            max,
                        });
                    }
                }
            }
        }
    }
    ctx.set("b_configs", cfgs.len() as u64);
    let mut jobs: Vec<(Cfg, i32, &str, Vec<char>)> = Vec::new();
    for cfg in &cfgs {
        let alphabet: Vec<char> = ROUNDS
            .iter()
            .copied()
            .filter(|c| *c != 'Q' || cfg.ver == Ver::V5)
            .collect();
        for &h in hysts {
            for p in PREFIXES {
                jobs.push((*cfg, h, p, alphabet.clone()));
            }
        }
    }
    // flatten (job, word index)
    let mut offsets = Vec::with_capacity(jobs.len() + 1);
    let mut total = 0u64;
    for j in &jobs {
        offsets.push(total);
        total += common::pow(j.3.len(), n);
    }
    offsets.push(total);
    let obs_set: Mutex<HashSet<u64>> = Mutex::new(HashSet::new());
    common::par_for(total, 64, |x| {
        let ji = offsets.partition_point(|o| *o <= x) - 1;
        let (cfg, h, p, alphabet) = &jobs[ji];
        let w: String = common::word_of(x - offsets[ji], alphabet.len(), n)
            .iter()
            .map(|i| alphabet[*i])
            .collect();
        let lc: Classes = Mutex::new(BTreeMap::new());
        let end = match common::catch(|| {
            rig::on_paused_rt(run_b(cfg, *h, p, &w, Some(ctx), Some(&lc)))
        }) {
            Ok(e) => e,
            Err(e) => {
                ctx.violation(
                    "C10:panic",
                    format!("panic while driving the source / filter: {e}"),
                    fmt_b(cfg, *h, p, &w),
                );
                return;
            }
        };
        let moved = end.desires.windows(2).any(|d| d[0] != d[1]);
        {
            let mut g = classes.lock().unwrap();
            for (k, v) in lc.into_inner().unwrap() {
                *g.entry(k).or_insert(0) += v;
            }
            *g.entry("b_histories".into()).or_insert(0) += 1;
            *g.entry("b_rounds".into()).or_insert(0) += (p.len() + n) as u64;
            if moved {
                *g.entry("b_histories_desire_moved".into()).or_insert(0) += 1;
            }
        }
        if moved {
            obs_set
                .lock()
                .unwrap()
                .insert(common::hash_of(&(cfg, h, p, &end.desires)));
        }
        if x % 50_021 == 11 {
            ctx.sample(format!(
                "{} -> poll/desire per round: {}",
                fmt_b(cfg, *h, p, &w),
                end.obs
            ));
        }
    });
    ctx.distinct_many(obs_set.into_inner().unwrap());
    if !quick {
        // the default hysteresis (16) needs long runs before the desire moves at all: a few
        // long fixed words per configuration
        let long_words = [
            "A".repeat(80),
            "AK".repeat(40),
            format!("{}{}", "A".repeat(40), "UW".repeat(20)),
            "AAAJ".repeat(20),
        ];
        let jobs2: Vec<(Cfg, String)> = cfgs
            .iter()
            .flat_map(|c| long_words.iter().map(move |w| (*c, w.clone())))
            .collect();
        common::par_for(jobs2.len() as u64, 1, |x| {
            let (cfg, w) = &jobs2[x as usize];
            let lc: Classes = Mutex::new(BTreeMap::new());
            let end = super::block_on_paused(run_b(cfg, 16, PREFIXES[0], w, Some(ctx), Some(&lc)));
            let mut g = classes.lock().unwrap();
            for (k, v) in lc.into_inner().unwrap() {
                *g.entry(format!("h16_{k}")).or_insert(0) += v;
            }
            *g.entry("b_histories".into()).or_insert(0) += 1;
            *g.entry("b_rounds".into()).or_insert(0) += (8 + w.len()) as u64;
            drop(g);
            if x % 97 == 3 {
                ctx.sample(format!("{} -> {}", fmt_b(cfg, 16, PREFIXES[0], w), end.obs));
            }
        });
    }
}

// ---------------------------------------------------------------------- replay / check

fn replay(ctx: &Ctx, trace: &str) -> String {
    let parts: Vec<&str> = trace.split(';').collect();
    match parts.first().copied() {
        Some("A") if parts.len() >= 3 => {
            let Some(cfg) = Cfg::parse(parts[1]) else {
                return "bad config".into();
            };
            let evs: Option<Vec<Ev>> = if parts[2].trim().is_empty() {
                Some(vec![])
            } else {
                parts[2].split(',').map(|s| Ev::parse(s.trim())).collect()
            };
            let Some(evs) = evs else {
                return "bad events".into();
            };
            let mut obs = String::new();
            for n in 1..=evs.len() {
                let end = super::block_on_paused(replay_a(&cfg, &evs[..n], Some(ctx), None));
                obs = format!("{} applied={} key={:?}", end.obs, end.applied, end.key);
            }
            obs
        }
        Some("B") if parts.len() >= 5 => {
            let Some(cfg) = Cfg::parse(parts[1]) else {
                return "bad config".into();
            };
            let Some(h) = parts[2]
                .strip_prefix('h')
                .and_then(|x| x.parse::<i32>().ok())
            else {
                return "bad hysteresis".into();
            };
            let end = super::block_on_paused(run_b(&cfg, h, parts[3], parts[4], Some(ctx), None));
            format!("{} desires={:?}", end.obs, end.desires)
        }
        _ => format!("unparsable trace {trace:?}"),
    }
}

#[test]
fn check() {
    let ctx = Ctx::new("C10");
    if let Some(t) = common::replay_trace() {
        let a = replay(&ctx, &t);
        let b = replay(&ctx, &t);
        common::report_replay("C10", &a, &b, ctx.violation_count() > 0);
        return;
    }
    ctx.rule(
        "A: BFS to fixpoint over {T, N, Q(v5 poll request min-1|max|max+2|126|127), RATE, RATEBIG, D(stub desire min-1|min|mid|max|max+1|-128|127)} \
         on the real NtpSource for every min<=max over {0,4,6,10,17} x {v4,v5} (thorough adds NTS and the widest symbols). \
         B: real Kalman source controller (production wrapper), every min<=initial<=max over {0,4,6,10,17}, 2 initialisation prefixes of 8 answered polls \
         then all words of length n (quick 4, thorough 6) over rounds {A,K,J,W,U,R,Q}, hysteresis 1 (thorough 1,2 + long words at default 16). \
         Distinct & non-trivial = A: distinct (config, canonical source view with reach reduced to its lowest set bit, stub desire, largest request) states; \
         B: distinct (config, hysteresis, prefix, sequence of filter desires) in which the desire moved.",
    );
    ctx.assume("the poll field of every valid NTPv5 answer (normal or RATE form) counts as 'an interval the server asked for'; a v4 RATE carries no number and never licenses exceeding max");
    ctx.assume("stub desires above max are an environment the real filter cannot produce (sentence 3); polls caused by them are bounded by the stub's desire and counted, not reported");
    ctx.assume("timers for exponents > 31 cannot be represented; only >= 1.01*2^31 s is demanded there; 1 ppb slack on the 1.05 edge (1.05 is not a binary fraction)");
    ctx.assume("reach register abstracted to the position of its lowest set bit in the part-A key (sound for actions, see replay_a)");
    let classes: Classes = Mutex::new(BTreeMap::new());
    let quick = ctx.quick();
    let mut all_fix = true;
    let mut a_cfgs = Vec::new();
    for &min in &GRID {
        for &max in &GRID {
            if min <= max {
                a_cfgs.push(Cfg {
                    nts: false,
                    ver: Ver::V4,
                    min,
                    init: min,
                    max,
                });
                a_cfgs.push(Cfg {
                    nts: false,
                    ver: Ver::V5,
                    min,
                    init: min,
                    max,
                });
                if !quick && (max - min <= 6) {
                    a_cfgs.push(Cfg {
                        nts: true,
                        ver: Ver::V5,
                        min,
                        init: min,
                        max,
                    });
                    a_cfgs.push(Cfg {
                        nts: true,
                        ver: Ver::V4,
                        min,
                        init: min,
                        max,
                    });
                }
            }
        }
    }
    // narrow configurations first: if the wall budget runs out it is the long ladders that
    // are cut (and reported as caps), not the typical configurations
    a_cfgs.sort_by_key(|c| (c.max - c.min, c.nts, c.ver, c.min));
    ctx.set("a_configs", a_cfgs.len() as u64);
    let a_jobs: Vec<(Cfg, Vec<Ev>)> = a_cfgs.iter().map(|c| (*c, alphabet_a(c, quick))).collect();
    let outs = explore_all_a(&ctx, &a_jobs, &classes);
    for ((cfg, _), r) in a_jobs.iter().zip(outs.iter()) {
        ctx.add("states", r.states);
        ctx.add("transitions", r.transitions);
        ctx.add("evaluations", r.transitions);
        ctx.max("max_depth", r.depth);
        if !r.fixpoint {
            all_fix = false;
        }
        let line = format!(
            "{} states, {} transitions, depth {}, fixpoint {}",
            r.states, r.transitions, r.depth, r.fixpoint
        );
        ctx.note(&format!("A_{}", cfg.tag()), &line);
        if (cfg.min == 4 && cfg.max == 10)
            || (cfg.min == 0 && cfg.max == 17)
            || (cfg.min == 6 && cfg.max == 6)
        {
            ctx.sample(format!("A {}: {line}", cfg.tag()));
        }
    }
    ctx.set("a_wall_ms", (ctx.elapsed_s() * 1000.0) as u64);
    run_part_b(&ctx, &classes);
    let g = classes.lock().unwrap();
    let rounds = *g.get("b_rounds").unwrap_or(&0);
    ctx.add("transitions", rounds);
    ctx.add("evaluations", *g.get("b_histories").unwrap_or(&0));
    for (k, v) in g.iter() {
        ctx.set(&format!("class_{k}"), *v);
    }
    drop(g);
    ctx.exhaustive(all_fix);
    ctx.finish();
}
