//! C10: not implemented yet.
