//! Group ge probe into `ntp-proto/src/source.rs` (child of `source::verif_probe`).
//! Read-only views of `NtpSource`'s private fields for C09/C10. Nothing here changes
//! the behaviour of the code under test.
use super::super::{NtpSource, ProtocolVersion};
use crate::algorithm::SourceController;

/// Everything in `NtpSource` that can influence a later `handle_timer` /
/// `handle_incoming` (identifiers masked), plus the synchronisation fields.
#[derive(Clone, Debug, PartialEq, Eq, Hash, PartialOrd, Ord)]
pub(crate) struct View {
    pub reach: u8,
    pub tries: usize,
    pub last_poll: i8,
    pub remote_min: i8,
    pub pending: bool,
    pub deny_seen: bool,
    pub stratum: u8,
    pub refid: String,
    /// 0 = V4, 1 = V4UpgradingToV5, 2 = UpgradedToV5, 3 = V5 ; second = tries_left
    pub proto: (u8, u8),
    pub stash: Option<usize>,
}

pub(crate) fn view<C: SourceController>(s: &NtpSource<C>) -> View {
    View {
        reach: s.reach.0,
        tries: s.tries,
        last_poll: s.last_poll_interval.as_log(),
        remote_min: s.remote_min_poll_interval.as_log(),
        pending: s.current_request_identifier.is_some(),
        deny_seen: s.have_deny_rstr_response,
        stratum: s.stratum,
        refid: format!("{:?}", s.reference_id),
        proto: match s.protocol_version {
            ProtocolVersion::V4 => (0, 0),
            ProtocolVersion::V4UpgradingToV5 { tries_left } => (1, tries_left),
            ProtocolVersion::UpgradedToV5 => (2, 0),
            ProtocolVersion::V5 => (3, 0),
        },
        stash: s.nts.as_ref().map(|n| n.cookies.len()),
    }
}

/// Fingerprint of the pending request identifier and its expiry (None = nothing pending).
pub(crate) fn pending_fingerprint<C: SourceController>(s: &NtpSource<C>) -> Option<String> {
    s.current_request_identifier
        .as_ref()
        .map(|(id, until)| format!("{id:?}@{until:?}"))
}

pub(crate) fn controller<C: SourceController>(s: &NtpSource<C>) -> &C {
    &s.controller
}
