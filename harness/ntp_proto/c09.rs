//! C09 — Kiss-o'-death codes are handled conservatively.
//!
//! Engine E-SEQ: explicit-state breadth-first search over the REAL `NtpSource`
//! (`handle_timer` / `handle_incoming`), plain and NTS, NTPv4 / NTPv5 / v4-upgrading.
//! `NtpSource` is not `Clone`, so every successor is rebuilt by replaying the event history
//! on a fresh source inside a paused tokio runtime; states are de-duplicated on a canonical
//! key (probe view of the source, identifiers masked, `tries` saturated at 3 because it is
//! only compared with the start-up threshold 3) joined with the oracle's own state.
//!
//! Events: T (timer fires; virtual time is advanced by the previously requested timer),
//! valid answers to the pending request N (normal), NU (normal + NTPv5 upgrade marker,
//! upgrading sources only), QP / QM / QX / QL (NTPv5 normal answers whose poll field requests
//! own+1 / max / max+2 / min-1; the request above max is adopted unclamped, so RATE is also
//! explored from states with remote_min > configured max), RATE, DENY, RSTR, NTSN, NAKD / NAKR (NTPv5 authnak flag combined
//! with poll 127 / own+1), UNK (unknown kiss code), and DL / DH
//! (the source's own clock filter, a stub controller, now desires the low / high interval).
//! All answers are assembled at byte level from the request the source emitted (origin /
//! client cookie / unique identifier are read back); for NTS sources they are authenticated
//! with the session's s2c key through the crate's AES-SIV cipher (NTS-NAK is, by its nature,
//! unauthenticated and carries the identifier in the clear).
//!
//! Oracle (from the statement only, see `Model`):
//!  * RATE: every later poll exponent >= the one just used; the server-imposed floor grows
//!    one step per RATE until the configured maximum; if the poll just used was longer than
//!    the source's own desire, the next poll is >= min(p+1, max).
//!  * DENY/RSTR: NTS -> `Demobilize` immediately; plain -> no action, only marked; a plain
//!    source is demobilised at a timer only if marked (no usable answer since the mark) and
//!    unreachable, and a marked source that gives up must demobilise (not reset).
//!  * NTSN / unknown code: no action, no measurement, probe view bit-identical (the
//!    protocol-negotiation counter, which belongs to C12, is excluded).
use std::collections::{BTreeMap, HashMap, HashSet};
use std::sync::Mutex;

use super::common::{self, Ctx};

/// Shared test rig for C09 and C10: stub controller, byte-level datagram builder /
/// inspector, source factory and the two drive operations (timer, answer).
pub(crate) mod rig {
    use std::collections::HashMap;
    use std::net::{IpAddr, Ipv4Addr, SocketAddr};
    use std::sync::atomic::{AtomicI32, AtomicU32, Ordering};
    use std::sync::{Arc, Mutex, RwLock};
    use std::time::Duration;

    use crate::ClockId;
    use crate::algorithm::{Measurement, ObservableSourceTimedata, SourceController};
    use crate::config::SourceConfig;
    use crate::cookiestash::CookieStash;
    use crate::packet::v5::server_reference_id::ServerId;
    use crate::packet::{AesSivCmac256, Cipher};
    use crate::source::verif_probe::ge as probe;
    use crate::source::{NtpSource, NtpSourceAction, ProtocolVersion, SourceNtsData};
    use crate::system::NtpSourceInfo;
    use crate::time_types::{NtpDuration, NtpTimestamp, PollInterval, PollIntervalLimits};

    pub(crate) use probe::View;

    #[derive(Clone, Copy, PartialEq, Eq, Hash, Debug, PartialOrd, Ord)]
    pub(crate) enum Ver {
        V4,
        V5,
        /// `V4UpgradingToV5` with the default number of tries (the daemon's default)
        Auto,
    }

    #[derive(Clone, Copy, PartialEq, Eq, Hash, Debug)]
    pub(crate) struct Cfg {
        pub nts: bool,
        pub ver: Ver,
        pub min: i8,
        pub init: i8,
        pub max: i8,
    }

    impl Cfg {
        pub fn tag(&self) -> String {
            format!(
                "{}-{}-{}.{}.{}",
                if self.nts { "nts" } else { "plain" },
                match self.ver {
                    Ver::V4 => "v4",
                    Ver::V5 => "v5",
                    Ver::Auto => "auto",
                },
                self.min,
                self.init,
                self.max
            )
        }
        pub fn parse(s: &str) -> Option<Cfg> {
            let mut it = s.split('-');
            let nts = match it.next()? {
                "nts" => true,
                "plain" => false,
                _ => return None,
            };
            let ver = match it.next()? {
                "v4" => Ver::V4,
                "v5" => Ver::V5,
                "auto" => Ver::Auto,
                _ => return None,
            };
            let lim: Vec<i8> = it
                .next()?
                .split('.')
                .filter_map(|x| x.parse().ok())
                .collect();
            if lim.len() != 3 {
                return None;
            }
            Some(Cfg {
                nts,
                ver,
                min: lim[0],
                init: lim[1],
                max: lim[2],
            })
        }
        pub fn source_config(&self) -> SourceConfig {
            SourceConfig {
                poll_interval_limits: PollIntervalLimits {
                    min: PollInterval::from_byte(self.min as u8),
                    max: PollInterval::from_byte(self.max as u8),
                },
                initial_poll_interval: PollInterval::from_byte(self.init as u8),
            }
        }
    }

    // ------------------------------------------------------------------ paused runtime

    std::thread_local! {
        static RT: tokio::runtime::Runtime = tokio::runtime::Builder::new_current_thread()
            .enable_time()
            .start_paused(true)
            .build()
            .expect("runtime");
    }

    /// Like `verif::block_on_paused`, but the paused current-thread runtime is built once per
    /// worker thread and reused (building one per history dominated the run time). Virtual
    /// time therefore keeps growing across histories of one thread; the code under test only
    /// ever uses differences of instants, so observations do not depend on it (the `--replay`
    /// path uses a fresh runtime and must reproduce the same observation).
    pub(crate) fn on_paused_rt<T>(f: impl std::future::Future<Output = T>) -> T {
        RT.with(|rt| rt.block_on(f))
    }

    // ------------------------------------------------------------------ stub controller

    #[derive(Default)]
    pub(crate) struct StubShared {
        pub desire: AtomicI32,
        pub measurements: AtomicU32,
        pub usable_calls: AtomicU32,
        pub usable_last: AtomicI32,
    }

    /// A source controller whose desired poll interval is whatever the harness says.
    pub(crate) struct Stub(pub Arc<StubShared>);

    impl SourceController for Stub {
        fn handle_measurement(&mut self, _: Measurement) {
            self.0.measurements.fetch_add(1, Ordering::Relaxed);
        }
        fn set_usable(&mut self, usable: bool) {
            self.0.usable_calls.fetch_add(1, Ordering::Relaxed);
            self.0.usable_last.store(usable as i32, Ordering::Relaxed);
        }
        fn desired_poll_interval(&self) -> PollInterval {
            PollInterval::from_byte(self.0.desire.load(Ordering::Relaxed) as i8 as u8)
        }
        fn observe(&self) -> ObservableSourceTimedata {
            ObservableSourceTimedata {
                offset: NtpDuration::ZERO,
                uncertainty: NtpDuration::MAX,
                delay: NtpDuration::MAX,
                remote_delay: NtpDuration::MAX,
                remote_uncertainty: NtpDuration::MAX,
                last_update: NtpTimestamp::default(),
            }
        }
    }

    // ------------------------------------------------------------------ request inspector

    #[derive(Clone, Debug)]
    pub(crate) struct Req {
        pub ver: u8,
        pub mode: u8,
        pub poll: i8,
        /// v4: transmit timestamp of the request; v5: client cookie
        pub origin: [u8; 8],
        pub upgrade_marker: bool,
        pub uid: Option<Vec<u8>>,
        /// number of cookie + cookie-placeholder fields = cookies the server may return
        pub cookie_slots: usize,
        pub cookie_len: usize,
        pub len: usize,
    }

    pub(crate) fn parse_request(b: &[u8]) -> Option<Req> {
        if b.len() < 48 {
            return None;
        }
        let ver = (b[0] >> 3) & 7;
        let mut r = Req {
            ver,
            mode: b[0] & 7,
            poll: b[2] as i8,
            origin: [0; 8],
            upgrade_marker: false,
            uid: None,
            cookie_slots: 0,
            cookie_len: 0,
            len: b.len(),
        };
        if ver == 5 {
            r.origin.copy_from_slice(&b[24..32]);
        } else {
            r.origin.copy_from_slice(&b[40..48]);
            r.upgrade_marker = &b[16..24] == b"NTP5DRFT";
        }
        // walk the extension fields (the request's fields before the authenticator are in
        // the clear)
        let mut off = 48;
        while off + 4 <= b.len() {
            let ty = u16::from_be_bytes([b[off], b[off + 1]]);
            let len = u16::from_be_bytes([b[off + 2], b[off + 3]]) as usize;
            if len < 4 || off + len > b.len() {
                break;
            }
            let body = &b[off + 4..off + len];
            match ty {
                0x0104 => r.uid = Some(body.to_vec()),
                0x0204 => {
                    r.cookie_slots += 1;
                    r.cookie_len = body.len();
                }
                0x0304 => r.cookie_slots += 1,
                _ => {}
            }
            off += (len + 3) & !3;
        }
        Some(r)
    }

    // ------------------------------------------------------------------ answer builder

    pub(crate) const DRAFT: &[u8] = b"draft-ietf-ntp-ntpv5-09";

    /// What the harness puts on the wire, field by field.
    #[derive(Clone, Debug)]
    pub(crate) struct Wire {
        pub stratum: u8,
        /// v4: reference id; v5: first four bytes of the server cookie
        pub code: [u8; 4],
        pub poll: u8,
        pub authnak: bool,
        /// v4 only: reference timestamp = NTPv5 upgrade marker
        pub marker: bool,
        /// NTS only: authenticate with the s2c key (false: identifier in the clear, no authenticator)
        pub authenticated: bool,
        /// NTS only: number of fresh cookies inside the encrypted part
        pub cookies: usize,
        /// server clock minus client clock, ns
        pub offset_ns: i64,
        /// one-way network delay, ns
        pub delay_ns: u32,
    }

    fn put_ef(out: &mut Vec<u8>, ty: u16, body: &[u8], v5: bool) {
        let len = 4 + body.len();
        let padded = (len + 3) & !3;
        out.extend_from_slice(&ty.to_be_bytes());
        out.extend_from_slice(&((if v5 { len } else { padded }) as u16).to_be_bytes());
        out.extend_from_slice(body);
        out.resize(out.len() + (padded - len), 0);
    }

    pub(crate) fn ts_bytes(total_ns: u128) -> [u8; 8] {
        let secs = (total_ns / 1_000_000_000) as u64 as u32;
        let nanos = (total_ns % 1_000_000_000) as u64;
        let frac = ((nanos << 32) / 1_000_000_000) as u32;
        let mut b = [0u8; 8];
        b[..4].copy_from_slice(&secs.to_be_bytes());
        b[4..].copy_from_slice(&frac.to_be_bytes());
        b
    }

    pub(crate) fn ts(total_ns: u128) -> NtpTimestamp {
        NtpTimestamp::from_seconds_nanos_since_ntp_era(
            (total_ns / 1_000_000_000) as u64 as u32,
            (total_ns % 1_000_000_000) as u32,
        )
    }

    /// Assemble the server datagram answering `req`. `client_send_ns` is the client's clock
    /// at transmission. `cookie_ctr` makes every cookie value unique.
    pub(crate) fn build_answer(
        req: &Req,
        w: &Wire,
        s2c: Option<&dyn Cipher>,
        client_send_ns: u128,
        cookie_ctr: &mut u64,
    ) -> Vec<u8> {
        let v5 = req.ver == 5;
        let server_ns =
            (client_send_ns as i128 + w.delay_ns as i128 + w.offset_ns as i128).max(0) as u128;
        let rx = ts_bytes(server_ns);
        let tx = ts_bytes(server_ns + 1_000);
        let mut out = Vec::with_capacity(256);
        let synchronized = w.stratum != 0 && w.stratum < 16;
        let li: u8 = if v5 && !synchronized { 3 } else { 0 };
        out.push((li << 6) | (req.ver << 3) | 4);
        out.push(w.stratum);
        out.push(w.poll);
        out.push(if w.stratum == 0 { 0 } else { 0xEC }); // precision 2^-20
        if v5 {
            out.extend_from_slice(&[0, 0, 0x10, 0]); // root delay (time32)
            out.extend_from_slice(&[0, 0, 0x10, 0]); // root dispersion
            out.push(0); // timescale UTC
            out.push(0); // era
            let mut flags = 0u8;
            if synchronized {
                flags |= 1;
            }
            if w.authnak {
                flags |= 4;
            }
            out.extend_from_slice(&[0, flags]);
            out.extend_from_slice(&w.code);
            out.extend_from_slice(&[0x5e, 0x11, 0x22, 0x33]); // rest of the server cookie
            out.extend_from_slice(&req.origin); // client cookie
        } else {
            out.extend_from_slice(&[0, 0, 0, 0x40]); // root delay (short)
            out.extend_from_slice(&[0, 0, 0, 0x40]); // root dispersion
            out.extend_from_slice(&w.code);
            if w.marker {
                out.extend_from_slice(b"NTP5DRFT");
            } else {
                out.extend_from_slice(&ts_bytes(server_ns.saturating_sub(7_000_000_000)));
            }
            out.extend_from_slice(&req.origin); // origin timestamp
        }
        out.extend_from_slice(&rx);
        out.extend_from_slice(&tx);
        debug_assert_eq!(out.len(), 48);
        if let Some(uid) = &req.uid {
            // NTS request: echo the unique identifier
            put_ef(&mut out, 0x0104, uid, v5);
        }
        if v5 {
            put_ef(&mut out, 0xF5FF, DRAFT, true);
        }
        if let (Some(cipher), true, true) = (s2c, req.uid.is_some(), w.authenticated) {
            // NTS authenticator and encrypted extension fields (RFC 8915 5.6), AAD = everything so far
            let mut plain = Vec::new();
            for _ in 0..w.cookies {
                *cookie_ctr += 1;
                let mut cookie = vec![0xC0u8; req.cookie_len.max(16) & !3];
                cookie[..8].copy_from_slice(&cookie_ctr.to_be_bytes());
                put_ef(&mut plain, 0x0204, &cookie, v5);
            }
            let mut buf = vec![0u8; plain.len() + 64];
            buf[..plain.len()].copy_from_slice(&plain);
            let r = cipher
                .encrypt(&mut buf, plain.len(), &out)
                .expect("encrypt");
            let mut body = Vec::with_capacity(4 + r.nonce_length + r.ciphertext_length);
            body.extend_from_slice(&(r.nonce_length as u16).to_be_bytes());
            body.extend_from_slice(&(r.ciphertext_length as u16).to_be_bytes());
            body.extend_from_slice(&buf[..r.nonce_length]);
            body.resize((body.len() + 3) & !3, 0);
            body.extend_from_slice(&buf[r.nonce_length..r.nonce_length + r.ciphertext_length]);
            put_ef(&mut out, 0x0404, &body, v5);
        }
        out
    }

    // ------------------------------------------------------------------ the rig

    #[derive(Clone, Debug, PartialEq)]
    pub(crate) enum TimerOut {
        Sent {
            poll: i8,
            ver: u8,
            timer: Duration,
            len: usize,
        },
        Reset,
        Demobilize,
        Odd(String),
    }

    #[derive(Clone, Debug, Default, PartialEq, Eq)]
    pub(crate) struct Acts {
        pub send: u32,
        pub timer: u32,
        pub reset: u32,
        pub demobilize: u32,
    }

    impl Acts {
        pub fn is_empty(&self) -> bool {
            *self == Acts::default()
        }
    }

    pub(crate) fn s2c_key() -> AesSivCmac256 {
        AesSivCmac256::new([0x5C; 32].into())
    }

    pub(crate) fn c2s_key() -> AesSivCmac256 {
        AesSivCmac256::new([0xC2; 32].into())
    }

    pub(crate) const BASE_NS: u128 = 3_900_000_000u128 * 1_000_000_000;
    /// advances of the paused clock are capped here (2^18 s); affects only how far virtual
    /// time moves for server-requested intervals > 2^17 s, never what the source does
    pub(crate) const MAX_ADVANCE: Duration = Duration::from_secs(1 << 18);

    pub(crate) struct Rig<C: SourceController> {
        pub cfg: Cfg,
        pub src: NtpSource<C>,
        pub req: Option<Req>,
        pub last_request: Vec<u8>,
        pub elapsed: Duration,
        pub next_timer: Duration,
        pub cookie_ctr: u64,
        pub send_ns: u128,
        s2c: Option<AesSivCmac256>,
    }

    impl<C: SourceController> Rig<C> {
        pub fn new(cfg: Cfg, controller: C) -> Self {
            let initial: Vec<Vec<u8>> = (0..8u8)
                .map(|i| {
                    let mut c = vec![0xA0u8; 64];
                    c[0] = i;
                    c
                })
                .collect();
            Self::with_cookies(cfg, controller, initial)
        }

        /// `initial_cookies`: what the NTS key exchange would have handed to the source
        /// (opaque for the byte-level answers; real `KeySet` cookies for the genuine server).
        pub fn with_cookies(cfg: Cfg, controller: C, initial_cookies: Vec<Vec<u8>>) -> Self {
            let nts = if cfg.nts {
                let mut cookies = CookieStash::default();
                for c in initial_cookies {
                    cookies.store(c);
                }
                Some(Box::new(SourceNtsData {
                    cookies,
                    c2s: Box::new(c2s_key()),
                    s2c: Box::new(s2c_key()),
                }))
            } else {
                None
            };
            let pv = match cfg.ver {
                Ver::V4 => ProtocolVersion::V4,
                Ver::V5 => ProtocolVersion::V5,
                Ver::Auto => ProtocolVersion::v4_upgrading_to_v5_with_default_tries(),
            };
            let info = NtpSourceInfo {
                ip_list: Arc::from(Vec::<IpAddr>::new()),
                server_id: ServerId::default(),
                local_stratum: 16,
            };
            let (src, init) = NtpSource::new(
                SocketAddr::new(IpAddr::V4(Ipv4Addr::new(192, 0, 2, 7)), 123),
                cfg.source_config(),
                pv,
                controller,
                nts,
                ClockId::new(),
                Arc::new(RwLock::new(info)),
                Arc::new(Mutex::new(HashMap::new())),
            );
            let mut next_timer = Duration::ZERO;
            for a in init {
                if let NtpSourceAction::SetTimer(d) = a {
                    next_timer = d;
                }
            }
            Rig {
                cfg,
                src,
                req: None,
                last_request: Vec::new(),
                elapsed: Duration::ZERO,
                next_timer,
                cookie_ctr: 0,
                send_ns: BASE_NS,
                s2c: if cfg.nts { Some(s2c_key()) } else { None },
            }
        }

        pub fn view(&self) -> View {
            probe::view(&self.src)
        }

        pub fn pending_fingerprint(&self) -> Option<String> {
            probe::pending_fingerprint(&self.src)
        }

        pub fn controller(&self) -> &C {
            probe::controller(&self.src)
        }

        /// The timer the source asked for expires: advance virtual time, call `handle_timer`.
        pub async fn timer(&mut self) -> TimerOut {
            let d = self.next_timer.min(MAX_ADVANCE);
            if !d.is_zero() {
                tokio::time::advance(d).await;
            }
            self.elapsed += d;
            self.send_ns = BASE_NS + self.elapsed.as_nanos();
            let mut sent = None;
            let mut timer = None;
            let mut other = Acts::default();
            let mut n = 0;
            for a in self.src.handle_timer() {
                n += 1;
                match a {
                    NtpSourceAction::Send(b) => {
                        other.send += 1;
                        sent = Some(b)
                    }
                    NtpSourceAction::SetTimer(d) => {
                        other.timer += 1;
                        timer = Some(d)
                    }
                    NtpSourceAction::Reset => other.reset += 1,
                    NtpSourceAction::Demobilize => other.demobilize += 1,
                }
            }
            match (sent, timer) {
                (Some(b), Some(t)) if n == 2 => {
                    let Some(req) = parse_request(&b) else {
                        return TimerOut::Odd(format!("unparsable request of {} bytes", b.len()));
                    };
                    let out = TimerOut::Sent {
                        poll: req.poll,
                        ver: req.ver,
                        timer: t,
                        len: b.len(),
                    };
                    self.req = Some(req);
                    self.last_request = b;
                    self.next_timer = t;
                    out
                }
                (None, None) if n == 1 && other.reset == 1 => TimerOut::Reset,
                (None, None) if n == 1 && other.demobilize == 1 => TimerOut::Demobilize,
                _ => TimerOut::Odd(format!("{other:?}")),
            }
        }

        /// Deliver `w` as the answer to the most recently emitted request (no time passes
        /// between the request and the answer, so it is always inside the 5 s window).
        pub fn answer(&mut self, w: &Wire) -> (Acts, Vec<u8>) {
            let req = self.req.clone().expect("answer without request");
            let bytes = build_answer(
                &req,
                w,
                self.s2c.as_ref().map(|c| c as &dyn Cipher),
                self.send_ns,
                &mut self.cookie_ctr,
            );
            (self.deliver(&bytes, w.delay_ns), bytes)
        }

        pub fn deliver(&mut self, bytes: &[u8], delay_ns: u32) -> Acts {
            let mut acts = Acts::default();
            let send = ts(self.send_ns);
            let recv = ts(self.send_ns + 2 * delay_ns as u128 + 1_000);
            for a in self.src.handle_incoming(bytes, send, recv) {
                match a {
                    NtpSourceAction::Send(_) => acts.send += 1,
                    NtpSourceAction::SetTimer(_) => acts.timer += 1,
                    NtpSourceAction::Reset => acts.reset += 1,
                    NtpSourceAction::Demobilize => acts.demobilize += 1,
                }
            }
            acts
        }
    }

    // ------------------------------------------------------------------ answer catalogue

    pub(crate) fn normal(req: &Req, poll: u8, marker: bool) -> Wire {
        Wire {
            stratum: 2,
            code: [10, 0, 0, 1],
            poll,
            authnak: false,
            marker,
            authenticated: true,
            cookies: req.cookie_slots,
            offset_ns: 0,
            delay_ns: 500_000,
        }
    }

    #[derive(Clone, Copy, PartialEq, Eq, Hash, Debug, PartialOrd, Ord)]
    pub(crate) enum Kiss {
        Rate,
        Deny,
        Rstr,
        Ntsn,
        Unknown,
    }

    /// The wire form of each kiss class for the version of the pending request. NTPv5 has no
    /// kiss codes: RATE = stratum 0 + poll above the client's, DENY = poll 127, NAK = authnak
    /// flag; RSTR does not exist (None). Everything else with stratum 0 is "unknown".
    pub(crate) fn kiss(req: &Req, k: Kiss) -> Option<Wire> {
        let mut w = Wire {
            stratum: 0,
            code: *b"XKOD",
            poll: 0,
            authnak: false,
            marker: false,
            authenticated: true,
            cookies: 0,
            offset_ns: 0,
            delay_ns: 500_000,
        };
        if req.ver == 5 {
            match k {
                Kiss::Rate => w.poll = (req.poll as u8).wrapping_add(1),
                Kiss::Deny => w.poll = 127,
                Kiss::Rstr => return None,
                Kiss::Ntsn => {
                    w.authnak = true;
                    w.authenticated = false;
                    w.poll = req.poll as u8;
                }
                Kiss::Unknown => w.poll = req.poll as u8,
            }
        } else {
            match k {
                Kiss::Rate => w.code = *b"RATE",
                Kiss::Deny => w.code = *b"DENY",
                Kiss::Rstr => w.code = *b"RSTR",
                Kiss::Ntsn => {
                    w.code = *b"NTSN";
                    w.authenticated = false;
                }
                Kiss::Unknown => w.code = *b"XKOD",
            }
        }
        Some(w)
    }
}

/// Real `Server`s with real `KeySet`s: the genuine counterpart of the byte-level answers
/// (the server can produce normal answers, DENY and NTS-NAK; it never sends RATE or RSTR).
mod genuine {
    use std::net::IpAddr;
    use std::sync::Arc;
    use std::time::Duration;

    use super::rig;
    use crate::keyset::{DecodedServerCookie, KeySetProvider};
    use crate::nts::AeadAlgorithm;
    use crate::server::{
        FilterAction, FilterList, Server, ServerAction, ServerConfig, ServerReason, ServerResponse,
        ServerStatHandler,
    };
    use crate::time_types::{NtpDuration, NtpTimestamp};
    use crate::{NtpClock, NtpLeapIndicator, NtpVersion};

    #[derive(Clone, Default)]
    pub(super) struct Clk;
    impl NtpClock for Clk {
        type Error = std::io::Error;
        fn now(&self) -> Result<NtpTimestamp, Self::Error> {
            Ok(rig::ts(rig::BASE_NS + 2_000_000))
        }
        fn set_frequency(&self, _: f64) -> Result<NtpTimestamp, Self::Error> {
            Ok(NtpTimestamp::default())
        }
        fn get_frequency(&self) -> Result<f64, Self::Error> {
            Ok(0.0)
        }
        fn step_clock(&self, _: NtpDuration) -> Result<NtpTimestamp, Self::Error> {
            Ok(NtpTimestamp::default())
        }
        fn disable_ntp_algorithm(&self) -> Result<(), Self::Error> {
            Ok(())
        }
        fn error_estimate_update(&self, _: NtpDuration, _: NtpDuration) -> Result<(), Self::Error> {
            Ok(())
        }
        fn status_update(&self, _: NtpLeapIndicator) -> Result<(), Self::Error> {
            Ok(())
        }
    }

    struct NoStats;
    impl ServerStatHandler for NoStats {
        fn register(&mut self, _: u8, _: bool, _: ServerReason, _: ServerResponse) {}
    }

    #[derive(Clone, Copy, PartialEq, Eq, Debug)]
    pub(super) enum Which {
        Allow,
        Deny,
        /// a server that does not know the key the client's cookies were made with -> NTS-NAK
        Foreign,
    }

    pub(super) struct Servers {
        allow: Server<Clk>,
        deny: Server<Clk>,
        foreign: Server<Clk>,
        pub cookies: Vec<Vec<u8>>,
    }

    fn config(deny_all: bool) -> ServerConfig {
        let everyone = vec!["0.0.0.0/0".parse().unwrap(), "::/0".parse().unwrap()];
        ServerConfig {
            denylist: FilterList {
                filter: if deny_all { everyone.clone() } else { vec![] },
                action: FilterAction::Deny,
            },
            allowlist: FilterList {
                filter: everyone,
                action: FilterAction::Ignore,
            },
            rate_limiting_cache_size: 0,
            rate_limiting_cutoff: Duration::from_secs(0),
            require_nts: None,
            accepted_versions: vec![NtpVersion::V3, NtpVersion::V4, NtpVersion::V5],
        }
    }

    impl Servers {
        pub fn new() -> Self {
            let keyset = KeySetProvider::new(1).get();
            let other = KeySetProvider::new(1).get();
            let session = DecodedServerCookie {
                algorithm: AeadAlgorithm::AeadAesSivCmac256,
                s2c: Box::new(rig::s2c_key()),
                c2s: Box::new(rig::c2s_key()),
            };
            let cookies = (0..8).map(|_| keyset.encode_cookie(&session)).collect();
            Servers {
                allow: Server::new_internal(config(false), Clk, Arc::default(), keyset.clone()),
                deny: Server::new_internal(config(true), Clk, Arc::default(), keyset),
                foreign: Server::new_internal(config(false), Clk, Arc::default(), other),
                cookies,
            }
        }

        pub fn answer(&mut self, which: Which, request: &[u8]) -> Option<Vec<u8>> {
            let server = match which {
                Which::Allow => &mut self.allow,
                Which::Deny => &mut self.deny,
                Which::Foreign => &mut self.foreign,
            };
            let mut buf = [0u8; 1024];
            let ip: IpAddr = "192.0.2.99".parse().unwrap();
            match server.handle(
                ip,
                rig::ts(rig::BASE_NS + 1_000_000),
                request,
                &mut buf,
                &mut NoStats,
            ) {
                ServerAction::Ignore => None,
                ServerAction::Respond { message } => Some(message.to_vec()),
            }
        }
    }
}

use rig::{Cfg, Kiss, Rig, Stub, StubShared, TimerOut, Ver, View};
use std::sync::Arc;
use std::sync::atomic::Ordering;

// ---------------------------------------------------------------------- events

#[derive(Clone, Copy, PartialEq, Eq, Hash, Debug, PartialOrd, Ord)]
enum Ev {
    T,
    N,
    NU,
    Rate,
    Deny,
    Rstr,
    Ntsn,
    Unk,
    DL,
    DH,
    /// NTPv5 only: NTS-NAK (authnak flag) whose poll field has the value that would otherwise
    /// mean DENY (127) / RATE (own+1). Still an NTS-NAK, so nothing may change (this is the
    /// plain-and-NTS, KISS-statement side of D1; the authentication side is C07's).
    NakD,
    NakR,
    /// NTPv5 only: normal, accepted answers whose poll field asks for own+1 (QP, only while
    /// own < max+2 so the ladder is finite), the configured max (QM), max+2 (QX, above the
    /// configured maximum: the source adopts it unclamped) and min-1 (QL)
    QP,
    QM,
    QX,
    QL,
    /// answers produced by a real `Server` (part G): normal, DENY, NTS-NAK
    GN,
    GD,
    GK,
}

const ALL_EV: [Ev; 16] = [
    Ev::T,
    Ev::N,
    Ev::NU,
    Ev::QP,
    Ev::QM,
    Ev::QX,
    Ev::QL,
    Ev::Rate,
    Ev::Deny,
    Ev::Rstr,
    Ev::Ntsn,
    Ev::NakD,
    Ev::NakR,
    Ev::Unk,
    Ev::DL,
    Ev::DH,
];
const GENUINE_EV: [Ev; 4] = [Ev::T, Ev::GN, Ev::GD, Ev::GK];

impl Ev {
    fn code(self) -> &'static str {
        match self {
            Ev::T => "T",
            Ev::N => "N",
            Ev::NU => "NU",
            Ev::Rate => "RATE",
            Ev::Deny => "DENY",
            Ev::Rstr => "RSTR",
            Ev::Ntsn => "NTSN",
            Ev::Unk => "UNK",
            Ev::DL => "DL",
            Ev::DH => "DH",
            Ev::QP => "QP",
            Ev::QM => "QM",
            Ev::QX => "QX",
            Ev::QL => "QL",
            Ev::NakD => "NAKD",
            Ev::NakR => "NAKR",
            Ev::GN => "GN",
            Ev::GD => "GD",
            Ev::GK => "GK",
        }
    }
    fn parse(s: &str) -> Option<Ev> {
        ALL_EV
            .iter()
            .chain(GENUINE_EV.iter())
            .copied()
            .find(|e| e.code() == s)
    }
    fn is_answer(self) -> bool {
        !matches!(self, Ev::T | Ev::DL | Ev::DH)
    }
}

fn fmt_hist(cfg: &Cfg, h: &[Ev]) -> String {
    format!(
        "{};{}",
        cfg.tag(),
        h.iter().map(|e| e.code()).collect::<Vec<_>>().join(",")
    )
}

fn parse_trace(t: &str) -> Option<(Cfg, Vec<Ev>)> {
    let (c, h) = t.split_once(';')?;
    let cfg = Cfg::parse(c)?;
    let evs = if h.trim().is_empty() {
        vec![]
    } else {
        h.split(',')
            .map(|x| Ev::parse(x.trim()))
            .collect::<Option<Vec<_>>>()?
    };
    Some((cfg, evs))
}

// ---------------------------------------------------------------------- oracle model

/// The reference model: written from the statement, never reads the source's fields.
#[derive(Clone, Debug, PartialEq, Eq, Hash, PartialOrd, Ord)]
struct Model {
    /// lower bound every later poll exponent must respect (None until the first RATE)
    floor: Option<i8>,
    /// server-imposed interval implied by the RATE answers so far (starts at configured min)
    rate_steps: i8,
    /// a valid DENY/RSTR was seen and no usable answer since (plain sources)
    marked: bool,
    /// polls sent, saturated at 3
    polls: u8,
    /// polls sent since the last usable answer, saturated at 8
    since_usable: u8,
    ever_usable: bool,
    /// a request is outstanding and has not been consumed by a usable answer
    pending: bool,
    last_poll: i8,
    last_desire: i8,
    /// 0 running, 1 reset, 2 demobilised
    terminal: u8,
}

impl Model {
    fn new(cfg: &Cfg) -> Self {
        Model {
            floor: None,
            rate_steps: cfg.min,
            marked: false,
            polls: 0,
            since_usable: 0,
            ever_usable: false,
            pending: false,
            last_poll: cfg.min,
            last_desire: cfg.min,
            terminal: 0,
        }
    }
    fn unreachable(&self) -> bool {
        if self.ever_usable {
            self.since_usable >= 8
        } else {
            self.polls >= 3
        }
    }
}

#[derive(Clone, Debug, PartialEq, Eq, Hash, PartialOrd, Ord)]
struct Key {
    view: View,
    desire: i8,
    model: Model,
}

struct End {
    key: Key,
    /// the last event was applicable (enabled) in the state before it
    applied: bool,
    obs: String,
}

fn desire_values(cfg: &Cfg) -> (i8, i8) {
    (cfg.min, (cfg.min + 2).min(cfg.max))
}

/// Replay `hist` on a fresh source. Oracle checks run on the LAST event only when `ctx` is
/// given (earlier transitions were checked when their own prefix was expanded).
async fn replay_hist(
    cfg: &Cfg,
    hist: &[Ev],
    ctx: Option<&Ctx>,
    classes: Option<&Mutex<BTreeMap<String, u64>>>,
) -> End {
    let shared = Arc::new(StubShared::default());
    let (lo, hi) = desire_values(cfg);
    shared.desire.store(lo as i32, Ordering::Relaxed);
    let mut servers = if hist.iter().any(|e| matches!(e, Ev::GN | Ev::GD | Ev::GK)) {
        Some(genuine::Servers::new())
    } else {
        None
    };
    let mut rig = match &servers {
        Some(s) => Rig::with_cookies(*cfg, Stub(shared.clone()), s.cookies.clone()),
        None => Rig::new(*cfg, Stub(shared.clone())),
    };
    let mut model = Model::new(cfg);
    let mut applied = true;
    let mut obs = String::new();
    let n = hist.len();
    for (i, ev) in hist.iter().enumerate() {
        let last = i + 1 == n;
        let check = if last { ctx } else { None };
        let trace = || fmt_hist(cfg, &hist[..=i]);
        let bump = |c: &str| {
            if last {
                if let Some(m) = classes {
                    *m.lock().unwrap().entry(c.to_string()).or_insert(0) += 1;
                }
            }
        };
        if model.terminal != 0 {
            applied = false;
            break;
        }
        match *ev {
            Ev::DL | Ev::DH => {
                let target = if *ev == Ev::DL { lo } else { hi };
                if shared.desire.load(Ordering::Relaxed) == target as i32 {
                    applied = false;
                    break;
                }
                shared.desire.store(target as i32, Ordering::Relaxed);
                bump("desire-change");
            }
            Ev::T => {
                let desire = shared.desire.load(Ordering::Relaxed) as i8;
                let out = rig.timer().await;
                if last {
                    // the jittered timer value is random by design: keep it out of the observation
                    obs = match &out {
                        TimerOut::Sent { poll, ver, len, .. } => {
                            format!("Sent poll {poll} v{ver} {len} bytes")
                        }
                        other => format!("{other:?}"),
                    };
                }
                match out {
                    TimerOut::Sent { poll, timer, .. } => {
                        bump("poll-sent");
                        if poll > cfg.max {
                            bump("poll-sent-above-configured-max");
                        }
                        if let Some(f) = model.floor {
                            bump("poll-sent-after-rate");
                            if f > cfg.max {
                                bump("poll-sent-with-floor-above-max");
                            }
                            if poll > model.last_poll {
                                bump("poll-lengthened");
                            }
                            // the same bound in time: the next poll is scheduled no sooner than the
                            // floor interval (jitter only ever lengthens, factor >= 1.01)
                            let floor_ns: u128 = (1u128 << (f.clamp(0, 31) as u32)) * 1_010_000_000;
                            if timer.as_nanos() < floor_ns {
                                if let Some(c) = check {
                                    c.violation(
                                        "C09:timer-faster-after-rate",
                                        format!("next poll scheduled sooner than 1.01 x 2^{f} s although the RATE answers so far require an interval >= 2^{f} s (poll byte sent: {poll})"),
                                        trace(),
                                    );
                                }
                            }
                            if poll < f {
                                if let Some(c) = check {
                                    c.violation(
                                        "C09:poll-faster-after-rate",
                                        format!("poll exponent {poll} sent although the RATE answers so far require >= {f} (config min {} max {}, own desire {desire})", cfg.min, cfg.max),
                                        trace(),
                                    );
                                }
                            }
                        }
                        model.polls = (model.polls + 1).min(3);
                        model.since_usable = (model.since_usable + 1).min(8);
                        model.pending = true;
                        model.last_poll = poll;
                        model.last_desire = desire;
                    }
                    TimerOut::Reset => {
                        bump("timer-reset");
                        model.terminal = 1;
                        if !cfg.nts && model.marked {
                            bump("timer-reset-while-marked");
                            if let Some(c) = check {
                                c.violation(
                                    "C09:deny-forgotten-at-giveup",
                                    "plain source saw a valid DENY/RSTR, got no usable answer since, became unreachable, but resets (retries) instead of demobilising",
                                    trace(),
                                );
                            }
                        }
                    }
                    TimerOut::Demobilize => {
                        bump("timer-demobilize");
                        model.terminal = 2;
                        if let Some(c) = check {
                            if cfg.nts {
                                c.violation(
                                    "C09:nts-demobilize-at-timer",
                                    "NTS source demobilised at a timer; a valid DENY/RSTR must demobilise it immediately and nothing else may",
                                    trace(),
                                );
                            } else if !model.marked {
                                c.violation(
                                    "C09:demobilize-without-deny",
                                    "plain source demobilised although no valid DENY/RSTR is outstanding (none seen, or a usable answer arrived since)",
                                    trace(),
                                );
                            } else if !model.unreachable() {
                                c.violation(
                                    "C09:demobilize-while-reachable",
                                    format!("plain source demobilised while still reachable (polls since last usable answer {}, ever usable {})", model.since_usable, model.ever_usable),
                                    trace(),
                                );
                            }
                        }
                    }
                    TimerOut::Odd(s) => {
                        model.terminal = 1;
                        if let Some(c) = check {
                            c.violation(
                                "C09:odd-timer-actions",
                                format!("handle_timer returned {s}"),
                                trace(),
                            );
                        }
                    }
                }
            }
            a => {
                // an answer: only "valid" ones are in scope = a request is outstanding in
                // the harness's eyes AND the source still holds it
                let v0 = rig.view();
                if !(model.pending && v0.pending) {
                    applied = false;
                    break;
                }
                let req = rig.req.clone().expect("pending without request");
                // genuine answers: bytes come from a real Server; they are then judged exactly
                // like their byte-level counterparts
                let (a, genuine_bytes) = match a {
                    Ev::GN | Ev::GD | Ev::GK => {
                        let which = match a {
                            Ev::GN => genuine::Which::Allow,
                            Ev::GD => genuine::Which::Deny,
                            _ => genuine::Which::Foreign,
                        };
                        if a == Ev::GK && !cfg.nts {
                            applied = false;
                            break;
                        }
                        let bytes = servers
                            .as_mut()
                            .and_then(|s| s.answer(which, &rig.last_request));
                        let Some(bytes) = bytes else {
                            bump("genuine-server-silent");
                            applied = false;
                            break;
                        };
                        bump(match a {
                            Ev::GN => "genuine-normal",
                            Ev::GD => "genuine-deny",
                            _ => "genuine-nak",
                        });
                        (
                            match a {
                                Ev::GN => Ev::N,
                                Ev::GD => Ev::Deny,
                                _ => Ev::Ntsn,
                            },
                            Some(bytes),
                        )
                    }
                    other => (other, None),
                };
                let wire = match a {
                    Ev::N => Some(rig::normal(&req, req.poll as u8, false)),
                    Ev::NU => {
                        if cfg.ver == Ver::Auto && req.ver == 4 && req.upgrade_marker {
                            Some(rig::normal(&req, req.poll as u8, true))
                        } else {
                            None
                        }
                    }
                    Ev::QP | Ev::QM | Ev::QX | Ev::QL => {
                        let q = match a {
                            Ev::QP => req.poll.saturating_add(1),
                            Ev::QM => cfg.max,
                            Ev::QX => cfg.max + 2,
                            _ => cfg.min - 1,
                        };
                        if req.ver == 5 && (a != Ev::QP || req.poll < cfg.max + 2) {
                            Some(rig::normal(&req, q as u8, false))
                        } else {
                            None
                        }
                    }
                    Ev::Rate => rig::kiss(&req, Kiss::Rate),
                    Ev::Deny => rig::kiss(&req, Kiss::Deny),
                    Ev::Rstr => rig::kiss(&req, Kiss::Rstr),
                    Ev::Ntsn => rig::kiss(&req, Kiss::Ntsn),
                    Ev::NakD | Ev::NakR => {
                        if req.ver == 5 && req.poll < 126 {
                            rig::kiss(&req, Kiss::Ntsn).map(|mut w| {
                                w.poll = if a == Ev::NakD {
                                    127
                                } else {
                                    (req.poll as u8).wrapping_add(1)
                                };
                                w
                            })
                        } else {
                            None
                        }
                    }
                    Ev::Unk => rig::kiss(&req, Kiss::Unknown),
                    _ => unreachable!(),
                };
                let Some(wire) = wire else {
                    applied = false;
                    break;
                };
                let fp0 = rig.pending_fingerprint();
                let m0 = shared.measurements.load(Ordering::Relaxed);
                let u0 = shared.usable_calls.load(Ordering::Relaxed);
                let (acts, bytes) = match genuine_bytes {
                    Some(b) => (rig.deliver(&b, wire.delay_ns), b),
                    None => rig.answer(&wire),
                };
                let v1 = rig.view();
                let fp1 = rig.pending_fingerprint();
                let m1 = shared.measurements.load(Ordering::Relaxed);
                let u1 = shared.usable_calls.load(Ordering::Relaxed);
                if last {
                    obs = format!("{acts:?} {v1:?} meas+{}", m1 - m0);
                }
                match a {
                    Ev::N | Ev::NU | Ev::QP | Ev::QM | Ev::QX | Ev::QL => {
                        if m1 > m0 {
                            bump("normal-usable");
                            match a {
                                Ev::QX => bump("v5-request-above-max"),
                                Ev::QP | Ev::QM | Ev::QL => bump("v5-request-other"),
                                _ => {}
                            }
                            model.marked = false;
                            model.ever_usable = true;
                            model.since_usable = 0;
                            model.pending = false;
                        } else {
                            // whether a normal answer is usable is C08's business; if the
                            // source refused it the request is simply still outstanding
                            bump("normal-refused");
                        }
                        if acts.demobilize > 0 {
                            if let Some(c) = check {
                                c.violation(
                                    "C09:demobilize-on-normal-answer",
                                    "a normal answer demobilised the source",
                                    trace(),
                                );
                            }
                            model.terminal = 2;
                        }
                    }
                    Ev::Rate => {
                        bump("rate");
                        if !acts.is_empty() {
                            if let Some(c) = check {
                                c.violation(
                                    "C09:rate-produces-action",
                                    format!("valid RATE answer produced actions {acts:?}"),
                                    trace(),
                                );
                            }
                            if acts.demobilize > 0 || acts.reset > 0 {
                                model.terminal = 2;
                            }
                        }
                        let p = model.last_poll;
                        model.rate_steps =
                            (model.rate_steps + 1).min(cfg.max).max(model.rate_steps);
                        let mut f = model.floor.unwrap_or(i8::MIN).max(p).max(model.rate_steps);
                        if p > model.last_desire {
                            // the interval just used was not the source's own: it must grow
                            f = f.max((p.saturating_add(1)).min(cfg.max.max(p)));
                            if p < cfg.max {
                                bump("rate-must-lengthen");
                            }
                        }
                        model.floor = Some(f);
                    }
                    Ev::Deny | Ev::Rstr => {
                        if cfg.nts {
                            bump("nts-deny");
                            if acts.demobilize == 0 {
                                if let Some(c) = check {
                                    c.violation(
                                        "C09:nts-deny-not-demobilized",
                                        format!("authenticated {} did not demobilise the NTS source (actions {acts:?})", a.code()),
                                        trace(),
                                    );
                                }
                            } else {
                                bump("nts-deny-demobilized");
                            }
                            model.terminal = 2;
                        } else {
                            bump("plain-deny");
                            if !acts.is_empty() {
                                if let Some(c) = check {
                                    c.violation(
                                        "C09:plain-deny-immediate-action",
                                        format!("unauthenticated {} must only be noted, but produced {acts:?}", a.code()),
                                        trace(),
                                    );
                                }
                                if acts.demobilize > 0 || acts.reset > 0 {
                                    model.terminal = 2;
                                }
                            }
                            model.marked = true;
                        }
                    }
                    Ev::Ntsn | Ev::NakD | Ev::NakR | Ev::Unk => {
                        bump(match a {
                            Ev::Ntsn => "ntsn",
                            Ev::NakD => "ntsn-v5-poll127",
                            Ev::NakR => "ntsn-v5-poll-above-own",
                            _ => "unknown-kiss",
                        });
                        let mut a0 = v0.clone();
                        let mut a1 = v1.clone();
                        // version negotiation bookkeeping is C12's, not part of this statement
                        a0.proto = (0, 0);
                        a1.proto = (0, 0);
                        let changed =
                            a0 != a1 || fp0 != fp1 || m1 != m0 || u1 != u0 || !acts.is_empty();
                        if changed {
                            if let Some(c) = check {
                                c.violation(
                                    "C09:nak-or-unknown-kiss-changes-state",
                                    format!(
                                        "{} changed the source: actions {acts:?}, measurements +{}, set_usable +{}, before {a0:?} after {a1:?}, pending id {}",
                                        a.code(),
                                        m1 - m0,
                                        u1 - u0,
                                        if fp0 == fp1 { "same" } else { "changed" }
                                    ),
                                    trace(),
                                );
                            }
                            if acts.demobilize > 0 || acts.reset > 0 {
                                model.terminal = 2;
                            }
                        }
                    }
                    _ => unreachable!(),
                }
                let _ = bytes;
            }
        }
    }
    let view = {
        let mut v = rig.view();
        v.tries = v.tries.min(3);
        v
    };
    if model.terminal == 0 && model.pending != view.pending && applied {
        if let Some(m) = classes {
            *m.lock()
                .unwrap()
                .entry("pending-view-differs".to_string())
                .or_insert(0) += 1;
        }
    }
    End {
        key: Key {
            view,
            desire: shared.desire.load(Ordering::Relaxed) as i8,
            model,
        },
        applied,
        obs,
    }
}

#[derive(Clone, Default)]
struct BfsOut {
    states: u64,
    transitions: u64,
    replayed_events: u64,
    depth: u64,
    fixpoint: bool,
}

/// Level-parallel BFS over ALL configurations at once (one barrier per depth instead of one
/// per configuration and depth). Every (state, event) pair of a level is executed against the
/// real source; threads only partition the level.
fn explore_all(
    ctx: &Ctx,
    cfgs: &[(Cfg, Vec<Ev>)],
    classes: &Mutex<BTreeMap<String, u64>>,
) -> Vec<BfsOut> {
    let mut outs = vec![
        BfsOut {
            states: 1,
            ..BfsOut::default()
        };
        cfgs.len()
    ];
    let mut seen: HashSet<(usize, Key)> = HashSet::new();
    let mut frontier: Vec<(usize, Vec<Ev>)> = Vec::new();
    for (ci, (cfg, _)) in cfgs.iter().enumerate() {
        let root = super::block_on_paused(replay_hist(cfg, &[], None, None));
        seen.insert((ci, root.key));
        frontier.push((ci, vec![]));
    }
    let mut depth = 0u64;
    while !frontier.is_empty() {
        if ctx.over_budget() {
            let open: Vec<String> = {
                let mut v: Vec<usize> = frontier.iter().map(|f| f.0).collect();
                v.dedup();
                v.iter().map(|i| cfgs[*i].0.tag()).collect()
            };
            ctx.cap_hit(&format!("depth {} not started (budget); depth <= {} complete for every configuration; not yet at fixpoint: {}", depth + 1, depth, open.join(" ")));
            break;
        }
        let found: Mutex<Vec<(usize, Vec<Ev>, Key)>> = Mutex::new(Vec::new());
        let stats: Mutex<Vec<(u64, u64)>> = Mutex::new(vec![(0, 0); cfgs.len()]);
        common::par_for(frontier.len() as u64, 8, |i| {
            let (ci, base) = &frontier[i as usize];
            let (cfg, events) = &cfgs[*ci];
            let mut local = Vec::new();
            let lc: Mutex<BTreeMap<String, u64>> = Mutex::new(BTreeMap::new());
            let (mut t, mut r) = (0u64, 0u64);
            rig::on_paused_rt(async {
                for ev in events {
                    let mut h = base.clone();
                    h.push(*ev);
                    let end = replay_hist(cfg, &h, Some(ctx), Some(&lc)).await;
                    if !end.applied {
                        continue;
                    }
                    t += 1;
                    r += h.len() as u64;
                    local.push((*ci, h, end.key));
                }
            });
            found.lock().unwrap().extend(local);
            {
                let mut st = stats.lock().unwrap();
                st[*ci].0 += t;
                st[*ci].1 += r;
            }
            let mut g = classes.lock().unwrap();
            for (k, v) in lc.into_inner().unwrap() {
                *g.entry(k).or_insert(0) += v;
            }
        });
        for (ci, (t, r)) in stats.into_inner().unwrap().into_iter().enumerate() {
            outs[ci].transitions += t;
            outs[ci].replayed_events += r;
        }
        let mut found = found.into_inner().unwrap();
        found.sort_by(|a, b| (a.0, &a.1).cmp(&(b.0, &b.1)));
        let mut next = Vec::new();
        depth += 1;
        for (ci, h, k) in found {
            let terminal = k.model.terminal != 0;
            if seen.insert((ci, k)) {
                outs[ci].states += 1;
                if !terminal {
                    // terminal states (reset / demobilised) have no successors
                    outs[ci].depth = depth;
                    next.push((ci, h));
                }
            }
        }
        frontier = next;
    }
    for (ci, o) in outs.iter_mut().enumerate() {
        o.fixpoint = !frontier.iter().any(|f| f.0 == ci);
    }
    ctx.distinct_many(
        seen.iter()
            .map(|(ci, k)| common::hash_of(&(&cfgs[*ci].0, k))),
    );
    outs
}

fn replay(ctx: &Ctx, trace: &str) -> String {
    let Some((cfg, hist)) = parse_trace(trace) else {
        return format!("unparsable trace {trace:?}");
    };
    let classes = Mutex::new(BTreeMap::new());
    // check every prefix so that the violating step is found wherever it is
    let mut obs = String::new();
    for n in 1..=hist.len() {
        let end = super::block_on_paused(replay_hist(&cfg, &hist[..n], Some(ctx), Some(&classes)));
        obs = format!("{} applied={} key={:?}", end.obs, end.applied, end.key);
    }
    obs
}

/// Part G: every word of length <= L over {T, GN, GD, GK} where the G answers come from real
/// `Server`s (allow-all, deny-all, foreign key set) fed with the request the source emitted.
/// Same oracle as the byte-level answers (GN = N, GD = DENY, GK = NTSN).
fn run_genuine(ctx: &Ctx, classes: &Mutex<BTreeMap<String, u64>>) {
    let c = |nts, ver| Cfg {
        nts,
        ver,
        min: 4,
        init: 4,
        max: 6,
    };
    let cfgs = [
        c(true, Ver::V4),
        c(true, Ver::V5),
        c(false, Ver::V4),
        c(false, Ver::V5),
    ];
    let max_len = if ctx.quick() { 6 } else { 8 };
    let applied = std::sync::atomic::AtomicU64::new(0);
    for cfg in &cfgs {
        for len in 1..=max_len {
            common::par_for(common::pow(GENUINE_EV.len(), len), 32, |x| {
                let evs: Vec<Ev> = common::word_of(x, GENUINE_EV.len(), len)
                    .iter()
                    .map(|i| GENUINE_EV[*i])
                    .collect();
                if evs[0] != Ev::T {
                    return; // nothing to answer before the first request
                }
                let lc: Mutex<BTreeMap<String, u64>> = Mutex::new(BTreeMap::new());
                let end = rig::on_paused_rt(replay_hist(cfg, &evs, Some(ctx), Some(&lc)));
                if end.applied {
                    applied.fetch_add(1, Ordering::Relaxed);
                    ctx.distinct(common::hash_of(&("G", cfg, &end.key)));
                    let mut g = classes.lock().unwrap();
                    for (k, v) in lc.into_inner().unwrap() {
                        *g.entry(format!("g-{k}")).or_insert(0) += v;
                    }
                }
            });
        }
    }
    let n = applied.load(Ordering::Relaxed);
    ctx.add("transitions", n);
    ctx.add("evaluations", n);
    ctx.set("genuine_histories", n);
}

fn configs(quick: bool) -> Vec<Cfg> {
    let c = |nts, ver, min, max| Cfg {
        nts,
        ver,
        min,
        init: min,
        max,
    };
    let mut v = vec![
        c(false, Ver::V4, 4, 6),
        c(false, Ver::V5, 4, 6),
        c(true, Ver::V4, 4, 6),
        c(true, Ver::V5, 4, 6),
        c(false, Ver::Auto, 4, 6),
        // the daemon's default limits
        c(false, Ver::V4, 4, 10),
    ];
    if !quick {
        v.push(c(true, Ver::V5, 4, 10));
        v.push(c(false, Ver::V5, 4, 10));
        v.push(c(true, Ver::V4, 4, 10));
        v.push(c(false, Ver::V4, 0, 17));
        v.push(c(false, Ver::V5, 6, 6));
        v.push(c(true, Ver::V4, 0, 3));
        v.push(c(false, Ver::V4, 10, 17));
    }
    v
}

#[test]
fn check() {
    let ctx = Ctx::new("C09");
    if let Some(t) = common::replay_trace() {
        let a = replay(&ctx, &t);
        let b = replay(&ctx, &t);
        common::report_replay("C09", &a, &b, ctx.violation_count() > 0);
        return;
    }
    ctx.rule(
        "breadth-first search to fixpoint over histories of {T, N, NU, QP/QM/QX/QL (v5 normal answers requesting poll own+1 / max / max+2 / min-1), RATE, DENY, RSTR, NTSN, NAKD, NAKR (v5 authnak with poll 127 / own+1), UNK, DL, DH} on the real NtpSource \
         (plain / NTS x NTPv4 / NTPv5 / v4-upgrading, poll limits per config), answers byte-assembled for the pending request \
         (NTS: authenticated with the s2c key; NTS-NAK in the clear); answer events are enabled while a request is outstanding, \
         so several answers per poll and every interleaving with unanswered polls is covered. Part G: every word of length <= 6 (thorough 8) \
         over {T, GN, GD, GK} with answers produced by real Servers (allow-all / deny-all / foreign key set) from the emitted request. Distinct & non-trivial = a distinct \
         (config, canonical source view, own desire, oracle state) reached by at least one event.",
    );
    ctx.assume("a KISS answer does not consume the outstanding request (a further answer to it is still 'valid'); the harness cross-checks this with the probe's pending flag and counts disagreements as pending-view-differs");
    ctx.assume("canonical key: identifiers masked, tries saturated at 3 (only compared with the start-up threshold), bloom-filter cursor and stub controller internals excluded (do not influence actions)");
    ctx.assume("usable answer = one after which the controller received measurements (acceptance rules themselves are C08)");
    ctx.assume("NTPv5 classes: RATE = stratum 0 & poll own+1, DENY = poll 127, unknown = stratum 0 & poll own, NAK = authnak flag with ANY poll (own, own+1, 127): a packet carrying the authnak flag is an NTS-NAK whatever its poll field says (D1, fixed in /repo eb5dfa6)");
    let classes = Mutex::new(BTreeMap::new());
    let cfgs: Vec<(Cfg, Vec<Ev>)> = configs(ctx.quick())
        .into_iter()
        .map(|cfg| {
            let events: Vec<Ev> = ALL_EV
                .iter()
                .copied()
                .filter(|e| match e {
                    Ev::NU => cfg.ver == Ver::Auto,
                    Ev::NakD | Ev::NakR | Ev::QP | Ev::QM | Ev::QX | Ev::QL => cfg.ver != Ver::V4,
                    Ev::DH | Ev::DL => desire_values(&cfg).0 != desire_values(&cfg).1,
                    _ => true,
                })
                .collect();
            (cfg, events)
        })
        .collect();
    let outs = explore_all(&ctx, &cfgs, &classes);
    let mut all_fix = true;
    for ((cfg, _), r) in cfgs.iter().zip(outs.iter()) {
        ctx.add("states", r.states);
        ctx.add("transitions", r.transitions);
        ctx.add("evaluations", r.transitions);
        ctx.add("replayed_events", r.replayed_events);
        ctx.max("max_depth", r.depth);
        if !r.fixpoint {
            all_fix = false;
        }
        let line = format!(
            "{} states, {} transitions, depth {}, fixpoint {}",
            r.states, r.transitions, r.depth, r.fixpoint
        );
        ctx.note(&format!("bfs_{}", cfg.tag()), &line);
        ctx.sample(format!("{}: {line}", cfg.tag()));
    }
    ctx.set("bfs_wall_ms", (ctx.elapsed_s() * 1000.0) as u64);
    run_genuine(&ctx, &classes);
    for (k, v) in classes.lock().unwrap().iter() {
        ctx.set(&format!("class_{}", k.replace('-', "_")), *v);
    }
    ctx.exhaustive(all_fix);
    ctx.finish();
}
