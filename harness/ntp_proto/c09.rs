//! C09: not implemented yet.
