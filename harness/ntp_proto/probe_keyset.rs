#[cfg(any(not(verif_select), verif_gi))]
#[path = "/verif/harness/ntp_proto/gi_probe_keyset.rs"]
pub(crate) mod gi;
