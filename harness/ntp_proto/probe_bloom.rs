#[cfg(any(not(verif_select), verif_gc))]
#[path = "/verif/harness/ntp_proto/gc_probe_bloom.rs"]
pub(crate) mod gc;
#[cfg(any(not(verif_select), verif_gk))]
#[path = "/verif/harness/ntp_proto/gk_probe_bloom.rs"]
pub(crate) mod gk;
