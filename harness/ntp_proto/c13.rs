//! C13: not implemented yet.
