//! C13 — NTS cookies are used once, oldest first, and never hoarded.
//!
//! Part A (E-SEQ on `CookieStash` alone): (A1) breadth-first search over the ring states
//! `(read, valid)` to fixpoint, every operation applied at every state; (A2) every
//! operation sequence up to a length over {get, store} and over {get, store 0 B, store
//! 9 B, store 1024 B}. Every step is compared with a FIFO queue of capacity 8 that keeps
//! the newest entries.
//!
//! Part B (E-SEQ through the real `NtpSource`): initial fill 1..=8 x every sequence of
//! polls where each poll's answer is one of {lost, the real server's answer, a
//! harness-built authenticated answer carrying k = 0..=9 uniquely tagged cookies of a
//! size class}. Every emitted request is parsed at byte level by the harness.
//!
//! Oracle (from the statement): each cookie is sent in at most one request; the cookie
//! sent is the oldest one held; after every event the stash holds exactly the newest
//! <= 8 undelivered cookies in arrival order; a request asks for
//! `placeholders + 1 == min(missing, cap)` new cookies where `missing = 8 - held after
//! taking the one being sent` and `cap` may depend only on what determines the packet
//! size (protocol version and the length of the cookie being sent), is non-increasing
//! in that length, and never bites while the full request would stay below half of the
//! 1024-byte send buffer.
use std::collections::{BTreeMap, BTreeSet, HashSet, VecDeque};
use std::sync::Mutex;

use super::c07::rig::*;
use super::common::{self, Ctx};
use crate::cookiestash::CookieStash;
use crate::cookiestash::verif_probe::gc as sp;
use crate::source::ProtocolVersion;

// ------------------------------------------------------------------------------ part A
#[derive(Clone, Copy, PartialEq, Eq, Debug, Hash)]
enum Op {
    Get,
    Store(usize),
}
fn op_str(o: &Op) -> String {
    match o {
        Op::Get => "g".into(),
        Op::Store(n) => format!("s{n}"),
    }
}
fn parse_ops(s: &str) -> Option<Vec<Op>> {
    if s.is_empty() {
        return Some(vec![]);
    }
    s.split(',')
        .map(|t| if t == "g" { Some(Op::Get) } else { t.strip_prefix('s')?.parse().ok().map(Op::Store) })
        .collect()
}

fn tagged(tag: u64, size: usize) -> Vec<u8> {
    let mut v = tag.to_be_bytes().to_vec();
    if size < 8 {
        v.truncate(size);
    } else {
        v.resize(size, 0xA5);
    }
    v
}

/// Run `ops` on a fresh stash next to the model; returns the first discrepancy and the
/// final ring state.
fn run_ops(ops: &[Op]) -> (Option<(String, String)>, (usize, usize)) {
    let mut stash = CookieStash::default();
    let mut model: VecDeque<Vec<u8>> = VecDeque::new();
    let mut yielded: HashSet<Vec<u8>> = HashSet::new();
    let mut tag = 0u64;
    let mut bad = None;
    for (i, op) in ops.iter().enumerate() {
        let mut fail = |class: &str, what: String| {
            if bad.is_none() {
                bad = Some((class.to_string(), format!("step {i} ({}): {what}", op_str(op))));
            }
        };
        match op {
            Op::Store(n) => {
                tag += 1;
                let c = tagged(tag, *n);
                stash.store(c.clone());
                model.push_back(c);
                if model.len() > 8 {
                    model.pop_front();
                }
            }
            Op::Get => {
                let got = stash.get();
                let want = model.pop_front();
                if got != want {
                    fail(
                        "C13:not-oldest-first",
                        format!("get() = {:?}, oldest held cookie is {:?}", got.as_ref().map(|c| common::hex(&c[..c.len().min(8)])), want.as_ref().map(|c| common::hex(&c[..c.len().min(8)]))),
                    );
                }
                if let Some(c) = got {
                    if c.len() >= 8 && !yielded.insert(c.clone()) {
                        fail("C13:cookie-reused", format!("cookie {} yielded twice", common::hex(&c[..8])));
                    }
                }
            }
        }
        let held = sp::fifo(&stash);
        if held.len() > 8 || held != model.iter().cloned().collect::<Vec<_>>() {
            fail(
                "C13:stash-contents",
                format!("stash holds {} cookies {:?}, model {:?}", held.len(), held.iter().map(|c| common::hex(&c[..c.len().min(8)])).collect::<Vec<_>>(), model.iter().map(|c| common::hex(&c[..c.len().min(8)])).collect::<Vec<_>>()),
            );
        }
        if stash.len() != model.len() || stash.gap() as usize != 8 - model.len() || stash.is_empty() != model.is_empty() {
            fail("C13:stash-contents", format!("len()={} gap()={} but {} cookies are held", stash.len(), stash.gap(), model.len()));
        }
        if sp::dead_slot_bytes(&stash) != 0 {
            fail("C13:stash-contents", format!("{} bytes of consumed/evicted cookies still kept in unused slots", sp::dead_slot_bytes(&stash)));
        }
    }
    (bad, sp::ring(&stash))
}

fn part_a(ctx: &Ctx) {
    // A1: BFS over ring states, representative history per state
    let sizes = [0usize, 9, 104, 1024];
    let mut ops_all = vec![Op::Get];
    ops_all.extend(sizes.iter().map(|s| Op::Store(*s)));
    let mut seen: BTreeMap<(usize, usize), Vec<Op>> = BTreeMap::new();
    seen.insert((0, 0), vec![]);
    let mut frontier = vec![vec![]];
    let mut tr = 0u64;
    let mut depth = 0;
    while !frontier.is_empty() {
        let mut next = Vec::new();
        for h in &frontier {
            for op in &ops_all {
                let mut h2: Vec<Op> = h.clone();
                h2.push(*op);
                let (bad, ring) = run_ops(&h2);
                tr += 1;
                if let Some((class, what)) = bad {
                    ctx.violation(&class, what, format!("A|{}", h2.iter().map(op_str).collect::<Vec<_>>().join(",")));
                }
                if !seen.contains_key(&ring) {
                    seen.insert(ring, h2.clone());
                    next.push(h2);
                }
            }
        }
        frontier = next;
        depth += 1;
    }
    ctx.add("states", seen.len() as u64);
    ctx.add("transitions", tr);
    ctx.set("a1_ring_states", seen.len() as u64);
    ctx.set("a1_bfs_depth", depth);
    // A2: all sequences
    let (n2, n4) = if ctx.quick() { (14usize, 7usize) } else { (18, 10) };
    let full = Mutex::new((0u64, 0u64, 0u64)); // overflow stores, empty gets, sequences
    for (alpha, n) in [(vec![Op::Get, Op::Store(9)], n2), (vec![Op::Get, Op::Store(0), Op::Store(9), Op::Store(1024)], n4)] {
        for len in 1..=n {
            let total = common::pow(alpha.len(), len);
            common::par_for(total, 4096, |x| {
                let w = common::word_of(x, alpha.len(), len);
                let ops: Vec<Op> = w.iter().map(|i| alpha[*i]).collect();
                let (bad, _) = run_ops(&ops);
                if let Some((class, what)) = bad {
                    ctx.violation(&class, what, format!("A|{}", ops.iter().map(op_str).collect::<Vec<_>>().join(",")));
                }
                // vacuity: does the sequence overflow the ring / read from empty?
                let mut held = 0i32;
                let (mut of, mut eg) = (0u64, 0u64);
                for o in &ops {
                    match o {
                        Op::Store(_) => {
                            if held == 8 {
                                of += 1
                            } else {
                                held += 1
                            }
                        }
                        Op::Get => {
                            if held == 0 {
                                eg += 1
                            } else {
                                held -= 1
                            }
                        }
                    }
                }
                let mut f = full.lock().unwrap();
                f.0 += of;
                f.1 += eg;
                f.2 += 1;
                drop(f);
                if of > 0 && eg > 0 {
                    ctx.distinct(common::hash_of(&("A", &w, alpha.len())));
                }
            });
            ctx.add("transitions", total * len as u64);
            ctx.add("evaluations", total);
        }
    }
    let f = full.lock().unwrap();
    ctx.set("a2_sequences", f.2);
    ctx.set("a2_stores_into_full_stash", f.0);
    ctx.set("a2_gets_from_empty_stash", f.1);
}

// ------------------------------------------------------------------------------ part B
#[derive(Clone, Copy, PartialEq, Eq, Debug)]
enum Ans {
    /// no answer arrives
    Lost,
    /// whatever the real server answers
    Server,
    /// authenticated answer built by the harness: k tagged cookies of `size` bytes
    Harness(usize, usize),
}
fn ans_str(a: &Ans) -> String {
    match a {
        Ans::Lost => "L".into(),
        Ans::Server => "S".into(),
        Ans::Harness(k, s) => format!("H{k}x{s}"),
    }
}
fn parse_ans(s: &str) -> Option<Ans> {
    match s {
        "L" => Some(Ans::Lost),
        "S" => Some(Ans::Server),
        _ => {
            let (k, z) = s.strip_prefix('H')?.split_once('x')?;
            Some(Ans::Harness(k.parse().ok()?, z.parse().ok()?))
        }
    }
}

struct ReqView {
    cookie: Vec<u8>,
    cookie_body_len: usize,
    placeholders: Vec<usize>,
    len: usize,
    slot: usize,
}

/// Byte-level view of an NTS request.
fn view(rig: &Rig, req: &[u8]) -> Result<ReqView, String> {
    let (fields, end) = walk(req, 48);
    if end != req.len() {
        return Err(format!("trailing bytes after extension fields at {end} of {}", req.len()));
    }
    let cookies: Vec<&Field> = fields.iter().filter(|f| f.ty == T_COOKIE).collect();
    if cookies.len() != 1 {
        return Err(format!("{} cookie fields in one request", cookies.len()));
    }
    if fields.iter().filter(|f| f.ty == T_UID).count() != 1 {
        return Err("no single unique identifier field".into());
    }
    let auth_off = fields.iter().find(|f| f.ty == T_AUTH).map(|f| f.off).ok_or("no authenticator")?;
    if open_at(&*rig.c2s, req, auth_off).is_none() {
        return Err("authenticator does not verify under C2S".into());
    }
    if cookies[0].off > auth_off || fields.iter().any(|f| f.ty == T_PLACEHOLDER && f.off > auth_off) {
        return Err("cookie or placeholder after the authenticator".into());
    }
    Ok(ReqView {
        cookie: cookies[0].body.clone(),
        cookie_body_len: cookies[0].body.len(),
        placeholders: fields.iter().filter(|f| f.ty == T_PLACEHOLDER).map(|f| f.body.len()).collect(),
        len: req.len(),
        slot: pad4(cookies[0].len),
    })
}

type CapTable = BTreeMap<(bool, usize), BTreeMap<(usize, usize), (String, usize, usize)>>;

struct BOut {
    violations: Vec<(String, String)>,
    sends: u64,
    resets_empty: u64,
    resets_other: u64,
    accepted: u64,
    evictions: u64,
    transitions: u64,
}

async fn run_b(cfg: Cfg, fill: usize, seq: &[Ans], caps: Option<&Mutex<CapTable>>) -> BOut {
    let v5 = cfg.v5();
    let mut rig = Rig::nts(cfg, fill);
    let mut model: VecDeque<Vec<u8>> = rig.key().cookies.unwrap_or_default().into();
    let mut sent: HashSet<Vec<u8>> = HashSet::new();
    let mut out = BOut { violations: vec![], sends: 0, resets_empty: 0, resets_other: 0, accepted: 0, evictions: 0, transitions: 0 };
    let mut tag = 1u64 << 40;
    let trace = format!("B|{}|{fill}|{}", cfg.name(), seq.iter().map(ans_str).collect::<Vec<_>>().join(","));
    macro_rules! fail {
        ($class:expr, $($arg:tt)*) => { out.violations.push(($class.to_string(), format!($($arg)*))) };
    }
    for (step, ans) in seq.iter().enumerate() {
        out.transitions += 1;
        let res = rig.timer();
        let req = match res {
            Out::Send(b, _) => b,
            Out::Reset => {
                if model.is_empty() {
                    out.resets_empty += 1;
                } else {
                    let k = rig.key();
                    if k.reach == 0 && k.tries >= 3 {
                        out.resets_other += 1;
                    } else {
                        fail!("C13:reset-with-cookies", "poll {step}: Reset although {} cookies are held and the source is reachable", model.len());
                    }
                }
                break;
            }
            Out::Panic(e) => {
                fail!("C13:panic", "poll {step}: handle_timer panicked: {e}");
                break;
            }
            o => {
                fail!("C13:request-malformed", "poll {step}: unexpected timer result {o:?}");
                break;
            }
        };
        out.sends += 1;
        if model.is_empty() {
            fail!("C13:send-without-cookie", "poll {step}: a request was sent although no cookie is held");
            break;
        }
        let v = match view(&rig, &req) {
            Ok(v) => v,
            Err(e) => {
                fail!("C13:request-malformed", "poll {step}: {e}");
                break;
            }
        };
        let oldest = model.pop_front().unwrap();
        let c = oldest.len();
        // the cookie field carries the cookie followed by zero padding only
        let carried_ok = v.cookie.len() >= c && v.cookie[..c] == oldest[..] && v.cookie[c..].iter().all(|b| *b == 0) && v.cookie.len() < c + 16;
        if !carried_ok {
            let pos = model.iter().position(|m| v.cookie.len() >= m.len() && v.cookie[..m.len()] == m[..]);
            fail!(
                "C13:not-oldest-first",
                "poll {step}: request carries cookie {}.. which is {} (oldest held is {}..)",
                common::hex(&v.cookie[..v.cookie.len().min(8)]),
                match pos {
                    Some(p) => format!("number {} in the queue", p + 2),
                    None => "not a held cookie".to_string(),
                },
                common::hex(&oldest[..oldest.len().min(8)])
            );
        }
        if !sent.insert(v.cookie[..c.min(v.cookie.len())].to_vec()) {
            fail!("C13:cookie-reused", "poll {step}: cookie {}.. was already sent in an earlier request", common::hex(&v.cookie[..v.cookie.len().min(8)]));
        }
        let missing = 8 - model.len();
        let requested = v.placeholders.len() + 1;
        if requested > missing {
            fail!("C13:request-count", "poll {step}: asks for {requested} new cookies but only {missing} are missing ({} held after taking one)", model.len());
        }
        if v.placeholders.iter().any(|p| *p != v.cookie_body_len) {
            fail!("C13:request-malformed", "poll {step}: placeholder bodies {:?} differ from the cookie body length {}", v.placeholders, v.cookie_body_len);
        }
        if v.len > 1024 {
            fail!("C13:request-malformed", "poll {step}: request is {} bytes", v.len);
        }
        if requested < missing {
            let full = v.len + (missing - requested) * v.slot;
            if full <= 512 {
                fail!("C13:request-count", "poll {step}: asks for {requested} of {missing} missing cookies although the full request would only be {full} bytes (cookie {c} B)");
            }
        }
        if let Some(t) = caps {
            t.lock().unwrap().entry((v5, c)).or_default().entry((missing, requested)).or_insert((trace.clone(), v.len, v.slot));
        }
        // ---- the answer
        let x = rig.exchanges.last().cloned().unwrap();
        let datagram: Option<(Vec<u8>, Vec<Vec<u8>>)> = match ans {
            Ans::Lost => None,
            Ans::Server => x.genuine.clone().map(|g| {
                // learn the delivered cookies with the harness-side walker
                let cookies = open_all(&*rig.s2c, &g).into_iter().next().and_then(|(_, pt)| plaintext_cookies(&pt)).unwrap_or_default();
                (g, cookies)
            }),
            Ans::Harness(k, size) => {
                let mut p = if v5 {
                    let mut h = hdr5(0, 4, 2, req[2], 1, [9; 8], x.id8);
                    h.extend(ef5(T_UID, &x.uid.unwrap_or([0; 32])));
                    h.extend(ef5(T_DRAFT, DRAFT));
                    h
                } else {
                    let mut h = hdr4(0, 4, 4, 2, req[2], *b"GPS\0", [0; 8], x.id8);
                    h.extend(ef4(T_UID, &x.uid.unwrap_or([0; 32]), 16));
                    h
                };
                let mut pt = Vec::new();
                let mut cookies = Vec::new();
                for _ in 0..*k {
                    tag += 1;
                    let c = tagged(tag, *size);
                    pt.extend(ef(v5, T_COOKIE, &c, 0));
                    // v4 framing pads the body to a multiple of 4: the padded body is the cookie
                    let mut stored = c.clone();
                    if !v5 {
                        stored.resize(pad4(stored.len()), 0);
                    }
                    cookies.push(stored);
                }
                let a = authenticator(&*rig.s2c, &p, &pt);
                p.extend(a);
                Some((p, cookies))
            }
        };
        if let Some((d, cookies)) = datagram {
            out.transitions += 1;
            let n0 = rig.log_len();
            let acts = rig.incoming(&d);
            let accepted = rig.log_from(n0).iter().any(|l| l.starts_with("meas"));
            if accepted {
                out.accepted += 1;
                for c in cookies {
                    model.push_back(c);
                    if model.len() > 8 {
                        model.pop_front();
                        out.evictions += 1;
                    }
                }
            } else if matches!(ans, Ans::Harness(..)) {
                fail!("C13:machinery", "poll {step}: harness-built authenticated answer was not accepted ({acts:?})");
                break;
            }
        }
        let k = rig.key();
        let held = k.cookies.clone().unwrap_or_default();
        if held != model.iter().cloned().collect::<Vec<_>>() {
            fail!(
                "C13:stash-contents",
                "after poll {step} + {}: stash holds {:?}, expected the newest <= 8 undelivered cookies {:?} (first 8 bytes each)",
                ans_str(ans),
                held.iter().map(|c| common::hex(&c[..c.len().min(8)])).collect::<Vec<_>>(),
                model.iter().map(|c| common::hex(&c[..c.len().min(8)])).collect::<Vec<_>>()
            );
            break;
        }
        let obs = rig.src.observe("x".into(), crate::ClockId(7)).nts_cookies;
        if obs != Some(model.len()) {
            fail!("C13:stash-contents", "after poll {step}: observable nts_cookies = {obs:?}, {} held", model.len());
        }
    }
    out
}

fn sequences(choices: &[Ans], polls: usize) -> u64 {
    common::pow(choices.len(), polls)
}

fn part_b(ctx: &Ctx) {
    let quick = ctx.quick();
    let caps: Mutex<CapTable> = Mutex::new(BTreeMap::new());
    let mut plans: Vec<(Cfg, Vec<Ans>, usize, &str)> = Vec::new();
    let base: Vec<Ans> = [Ans::Lost, Ans::Server].into_iter().chain((0..=9).map(|k| Ans::Harness(k, 104))).collect();
    let sized: Vec<Ans> = [Ans::Lost, Ans::Server]
        .into_iter()
        .chain([16usize, 40, 90, 168, 300, 700].into_iter().flat_map(|s| [1usize, 3, 8, 9].into_iter().map(move |k| Ans::Harness(k, s))))
        .collect();
    let (p_main, p_512, p_sized) = if quick { (3, 2, 2) } else { (5, 4, 3) };
    for pv in [ProtocolVersion::V4, ProtocolVersion::V5] {
        plans.push((Cfg { pv, k512: false }, base.clone(), p_main, "main"));
        plans.push((Cfg { pv, k512: true }, base.clone(), p_512, "k512"));
        plans.push((Cfg { pv, k512: false }, sized.clone(), p_sized, "sizes"));
    }
    for (cfg, choices, polls, label) in &plans {
        let per_fill = sequences(choices, *polls);
        let total = per_fill * 8;
        let stats = Mutex::new((0u64, 0u64, 0u64, 0u64, 0u64, 0u64));
        common::par_for(total, 64, |i| {
            let fill = (i / per_fill) as usize + 1;
            let w = common::word_of(i % per_fill, choices.len(), *polls);
            let seq: Vec<Ans> = w.iter().map(|j| choices[*j]).collect();
            let out = super::block_on_paused(run_b(*cfg, fill, &seq, Some(&caps)));
            let trace = format!("B|{}|{fill}|{}", cfg.name(), seq.iter().map(ans_str).collect::<Vec<_>>().join(","));
            for (class, what) in &out.violations {
                ctx.violation(class, format!("[{} fill {fill}] {what}", cfg.name()), trace.clone());
            }
            let mut s = stats.lock().unwrap();
            s.0 += out.sends;
            s.1 += out.resets_empty;
            s.2 += out.resets_other;
            s.3 += out.accepted;
            s.4 += out.evictions;
            s.5 += out.transitions;
            drop(s);
            if out.accepted > 0 {
                ctx.distinct(common::hash_of(&trace));
            }
            if i % 9973 == 11 {
                ctx.sample(format!("{trace}: {} requests, {} answers accepted, {} cookies evicted", out.sends, out.accepted, out.evictions));
            }
        });
        let s = stats.lock().unwrap();
        ctx.add("evaluations", total);
        ctx.add("transitions", s.5);
        ctx.add("b_histories", total);
        ctx.add("b_requests_parsed", s.0);
        ctx.add("b_reset_stash_empty", s.1);
        ctx.add("b_reset_unreachable", s.2);
        ctx.add("b_answers_accepted", s.3);
        ctx.add("b_cookies_evicted_over_8", s.4);
        ctx.add(&format!("b_histories.{}.{label}", cfg.name()), total);
    }
    // ---- structural check of the size cap: requested == min(missing, cap(version, cookie length))
    let caps = caps.into_inner().unwrap();
    let mut table = String::new();
    let mut prev: BTreeMap<bool, (usize, usize)> = BTreeMap::new();
    for ((v5, c), pairs) in &caps {
        let capped: BTreeSet<usize> = pairs.iter().filter(|((m, r), _)| r < m).map(|((_, r), _)| *r).collect();
        let max_seen = pairs.keys().map(|(_, r)| *r).max().unwrap_or(0);
        let cap = capped.iter().next().copied();
        if capped.len() > 1 {
            let (t, _, _) = pairs.iter().find(|((m, r), _)| r < m).map(|(_, v)| v.clone()).unwrap();
            ctx.violation("C13:request-count", format!("cookie {c} B, v5={v5}: the request count is cut to different values {capped:?} for the same packet geometry"), t);
        }
        if let Some(cap) = cap {
            for ((m, r), (t, _, _)) in pairs {
                if *r != (*m).min(cap) {
                    ctx.violation("C13:request-count", format!("cookie {c} B, v5={v5}: asked for {r} with {m} missing, but the size cap observed elsewhere is {cap}"), t.clone());
                }
            }
            if let Some((pc, pcap)) = prev.get(v5) {
                if cap > *pcap {
                    ctx.violation("C13:request-count", format!("v5={v5}: size cap {cap} for {c}-byte cookies exceeds cap {pcap} for shorter {pc}-byte cookies"), pairs.values().next().unwrap().0.clone());
                }
            }
            prev.insert(*v5, (*c, cap));
        }
        ctx.inc("b_cap_table_rows");
        table.push_str(&format!(
            "{}:{}B->{} ",
            if *v5 { "v5" } else { "v4" },
            c,
            match cap {
                Some(x) => format!("cap{x}"),
                None => format!("uncapped(max{max_seen})"),
            }
        ));
    }
    ctx.note("size_cap_table", table.trim());
}

fn replay(ctx: &Ctx, trace: &str) -> String {
    let parts: Vec<&str> = trace.split('|').collect();
    match parts.as_slice() {
        ["A", ops] => {
            let Some(ops) = parse_ops(ops) else { return "bad trace".into() };
            let (bad, ring) = run_ops(&ops);
            if let Some((class, what)) = &bad {
                ctx.violation(class, what.clone(), trace.to_string());
            }
            format!("ring={ring:?} discrepancy={:?}", bad.map(|b| b.0))
        }
        ["B", cfg, fill, seq] => {
            let (Some(cfg), Ok(fill)) = (Cfg::parse(cfg), fill.parse::<usize>()) else { return "bad trace".into() };
            let Some(seq) = seq.split(',').filter(|s| !s.is_empty()).map(parse_ans).collect::<Option<Vec<_>>>() else { return "bad trace".into() };
            let out = super::block_on_paused(run_b(cfg, fill, &seq, None));
            for (class, what) in &out.violations {
                ctx.violation(class, what.clone(), trace.to_string());
            }
            format!("sends={} accepted={} evicted={} violations={:?}", out.sends, out.accepted, out.evictions, out.violations)
        }
        _ => "bad trace".into(),
    }
}

#[test]
fn check() {
    let ctx = Ctx::new("C13");
    if let Some(t) = common::replay_trace() {
        let a = replay(&ctx, &t);
        let b = replay(&ctx, &t);
        common::report_replay("C13", &a, &b, ctx.violation_count() > 0);
        return;
    }
    ctx.rule(
        "A1: BFS over CookieStash ring states (read, valid) to fixpoint with ops {get, store 0/9/104/1024 B}; A2: every op \
         sequence over {get, store} up to length 14 (quick) / 18 and over {get, store 0 B, store 9 B, store 1024 B} up to \
         length 7 / 10; B: NTS source (v4/v5, 256/512-bit keys) with initial fill 1..=8 x every sequence of 3 (quick) / 5 \
         polls (2 / 4 for 512-bit keys, 2 / 3 for the size sweep) whose answers range over {lost, real server's answer, harness-built \
         authenticated answer with k=0..=9 tagged cookies of 104 B; size sweep: k in {1,3,8,9} x {16,40,90,168,300,700} B}. \
         distinct non-trivial = A2 sequence that both overflows the ring and reads from an empty stash, or B history with at \
         least one accepted answer.",
    );
    ctx.assume("'limited only by packet size' is read as: requested = min(missing, cap) with cap a non-increasing function of the cookie length per protocol version, which must not reduce the count while the full request would be <= 512 bytes; the concrete (conservative) cap values are reported in the evidence, not judged");
    ctx.assume("harness-built answers are authenticated with the crate's Cipher::encrypt under the session S2C key");
    part_a(&ctx);
    part_b(&ctx);
    ctx.exhaustive(true);
    ctx.finish();
}
