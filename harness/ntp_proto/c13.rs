//! C13 — NTS cookies are used once, oldest first, and never hoarded.
//!
//! Part A (E-SEQ on `CookieStash` alone): (A1) breadth-first search over the ring states
//! `(read, valid)` to fixpoint, every operation applied at every state; (A2) every
//! operation sequence up to a length over {get, store} and over {get, store 0 B, store
//! 9 B, store 1024 B}. Every step is compared with a FIFO queue of capacity 8 that keeps
//! the newest entries.
//!
//! Part B (E-SEQ through the real `NtpSource`): initial fill 1..=8 x every sequence of
//! polls where each poll's answer is one of {lost, the real server's answer, a
//! harness-built authenticated answer carrying k = 0..=9 uniquely tagged cookies of a
//! size class}. Every emitted request is parsed at byte level by the harness.
//! A further sweep answers the first polls with every KIND of authenticated datagram that
//! matches the request (time answer, RATE / unknown / NTS-NAK kiss, stratum 17, client mode,
//! each carrying cookies), delivered once, twice in a row, or again after the next
//! request, and then runs 10 normally answered polls so that every cookie held is sent and
//! the at-most-once oracle on request cookies can fire.
//!
//! Oracle (from the statement): each cookie is sent in at most one request; the cookie
//! sent is the oldest one held; after every event the stash holds exactly the newest
//! <= 8 undelivered cookies in arrival order; a request asks for
//! `placeholders + 1 == min(missing, cap)` new cookies where `missing = 8 - held after
//! taking the one being sent` and `cap` may depend only on what determines the packet
//! size (protocol version and the length of the cookie being sent), is non-increasing
//! in that length, and never bites while the full request would stay below half of the
//! 1024-byte send buffer.
use std::collections::{BTreeMap, BTreeSet, HashSet, VecDeque};
use std::sync::Mutex;

use super::c07::rig::*;
use super::common::{self, Ctx};
use crate::cookiestash::CookieStash;
use crate::cookiestash::verif_probe::gc as sp;
use crate::source::ProtocolVersion;

// ------------------------------------------------------------------------------ part A
#[derive(Clone, Copy, PartialEq, Eq, Debug, Hash)]
enum Op {
    Get,
    Store(usize),
}
fn op_str(o: &Op) -> String {
    match o {
        Op::Get => "g".into(),
        Op::Store(n) => format!("s{n}"),
    }
}
fn parse_ops(s: &str) -> Option<Vec<Op>> {
    if s.is_empty() {
        return Some(vec![]);
    }
    s.split(',')
        .map(|t| {
            if t == "g" {
                Some(Op::Get)
            } else {
                t.strip_prefix('s')?.parse().ok().map(Op::Store)
            }
        })
        .collect()
}

fn tagged(tag: u64, size: usize) -> Vec<u8> {
    let mut v = tag.to_be_bytes().to_vec();
    if size < 8 {
        v.truncate(size);
    } else {
        v.resize(size, 0xA5);
    }
    v
}

/// Run `ops` on a fresh stash next to the model; returns the first discrepancy and the
/// final ring state.
fn run_ops(ops: &[Op]) -> (Option<(String, String)>, (usize, usize)) {
    let mut stash = CookieStash::default();
    let mut model: VecDeque<Vec<u8>> = VecDeque::new();
    let mut yielded: HashSet<Vec<u8>> = HashSet::new();
    let mut tag = 0u64;
    let mut bad = None;
    for (i, op) in ops.iter().enumerate() {
        let mut fail = |class: &str, what: String| {
            if bad.is_none() {
                bad = Some((
                    class.to_string(),
                    format!("step {i} ({}): {what}", op_str(op)),
                ));
            }
        };
        match op {
            Op::Store(n) => {
                tag += 1;
                let c = tagged(tag, *n);
                stash.store(c.clone());
                model.push_back(c);
                if model.len() > 8 {
                    model.pop_front();
                }
            }
            Op::Get => {
                let got = stash.get();
                let want = model.pop_front();
                if got != want {
                    fail(
                        "C13:not-oldest-first",
                        format!(
                            "get() = {:?}, oldest held cookie is {:?}",
                            got.as_ref().map(|c| common::hex(&c[..c.len().min(8)])),
                            want.as_ref().map(|c| common::hex(&c[..c.len().min(8)]))
                        ),
                    );
                }
                if let Some(c) = got {
                    if c.len() >= 8 && !yielded.insert(c.clone()) {
                        fail(
                            "C13:cookie-reused",
                            format!("cookie {} yielded twice", common::hex(&c[..8])),
                        );
                    }
                }
            }
        }
        let held = sp::fifo(&stash);
        if held.len() > 8 || held != model.iter().cloned().collect::<Vec<_>>() {
            fail(
                "C13:stash-contents",
                format!(
                    "stash holds {} cookies {:?}, model {:?}",
                    held.len(),
                    held.iter()
                        .map(|c| common::hex(&c[..c.len().min(8)]))
                        .collect::<Vec<_>>(),
                    model
                        .iter()
                        .map(|c| common::hex(&c[..c.len().min(8)]))
                        .collect::<Vec<_>>()
                ),
            );
        }
        if stash.len() != model.len()
            || stash.gap() as usize != 8 - model.len()
            || stash.is_empty() != model.is_empty()
        {
            fail(
                "C13:stash-contents",
                format!(
                    "len()={} gap()={} but {} cookies are held",
                    stash.len(),
                    stash.gap(),
                    model.len()
                ),
            );
        }
        if sp::dead_slot_bytes(&stash) != 0 {
            fail(
                "C13:stash-contents",
                format!(
                    "{} bytes of consumed/evicted cookies still kept in unused slots",
                    sp::dead_slot_bytes(&stash)
                ),
            );
        }
    }
    (bad, sp::ring(&stash))
}

fn part_a(ctx: &Ctx) {
    // A1: BFS over ring states, representative history per state
    let sizes = [0usize, 9, 104, 1024];
    let mut ops_all = vec![Op::Get];
    ops_all.extend(sizes.iter().map(|s| Op::Store(*s)));
    let mut seen: BTreeMap<(usize, usize), Vec<Op>> = BTreeMap::new();
    seen.insert((0, 0), vec![]);
    let mut frontier = vec![vec![]];
    let mut tr = 0u64;
    let mut depth = 0;
    while !frontier.is_empty() {
        let mut next = Vec::new();
        for h in &frontier {
            for op in &ops_all {
                let mut h2: Vec<Op> = h.clone();
                h2.push(*op);
                let (bad, ring) = run_ops(&h2);
                tr += 1;
                if let Some((class, what)) = bad {
                    ctx.violation(
                        &class,
                        what,
                        format!("A|{}", h2.iter().map(op_str).collect::<Vec<_>>().join(",")),
                    );
                }
                if !seen.contains_key(&ring) {
                    seen.insert(ring, h2.clone());
                    next.push(h2);
                }
            }
        }
        frontier = next;
        depth += 1;
    }
    ctx.add("states", seen.len() as u64);
    ctx.add("transitions", tr);
    ctx.set("a1_ring_states", seen.len() as u64);
    ctx.set("a1_bfs_depth", depth);
    // A2: all sequences
    let (n2, n4) = if ctx.quick() {
        (14usize, 7usize)
    } else {
        (18, 10)
    };
    let full = Mutex::new((0u64, 0u64, 0u64)); // overflow stores, empty gets, sequences
    for (alpha, n) in [
        (vec![Op::Get, Op::Store(9)], n2),
        (
            vec![Op::Get, Op::Store(0), Op::Store(9), Op::Store(1024)],
            n4,
        ),
    ] {
        for len in 1..=n {
            let total = common::pow(alpha.len(), len);
            common::par_for(total, 4096, |x| {
                let w = common::word_of(x, alpha.len(), len);
                let ops: Vec<Op> = w.iter().map(|i| alpha[*i]).collect();
                let (bad, _) = run_ops(&ops);
                if let Some((class, what)) = bad {
                    ctx.violation(
                        &class,
                        what,
                        format!("A|{}", ops.iter().map(op_str).collect::<Vec<_>>().join(",")),
                    );
                }
                // vacuity: does the sequence overflow the ring / read from empty?
                let mut held = 0i32;
                let (mut of, mut eg) = (0u64, 0u64);
                for o in &ops {
                    match o {
                        Op::Store(_) => {
                            if held == 8 {
                                of += 1
                            } else {
                                held += 1
                            }
                        }
                        Op::Get => {
                            if held == 0 {
                                eg += 1
                            } else {
                                held -= 1
                            }
                        }
                    }
                }
                let mut f = full.lock().unwrap();
                f.0 += of;
                f.1 += eg;
                f.2 += 1;
                drop(f);
                if of > 0 && eg > 0 {
                    ctx.distinct(common::hash_of(&("A", &w, alpha.len())));
                }
            });
            ctx.add("transitions", total * len as u64);
            ctx.add("evaluations", total);
        }
    }
    let f = full.lock().unwrap();
    ctx.set("a2_sequences", f.2);
    ctx.set("a2_stores_into_full_stash", f.0);
    ctx.set("a2_gets_from_empty_stash", f.1);
}

// ------------------------------------------------------------------------------ part B
/// What arrives in answer to a poll.
#[derive(Clone, Copy, PartialEq, Eq, Debug)]
enum Kind {
    /// no answer arrives
    Lost,
    /// whatever the real server answers
    Server,
    /// harness-built authenticated TIME answer (stratum 2, server mode)
    Time,
    /// harness-built authenticated answers that are NOT time answers but match the request:
    /// RATE kiss, unknown kiss code, NTS NAK kiss, stratum 17, client/request mode
    KissRate,
    KissUnknown,
    KissNtsn,
    Stratum17,
    WrongMode,
}
/// Is the datagram delivered a second time?
#[derive(Clone, Copy, PartialEq, Eq, Debug)]
enum Dup {
    No,
    /// immediately after the first delivery (request still pending unless consumed)
    Now,
    /// after the next poll has been sent (the request it answers is no longer pending)
    Late,
}
/// One poll: the answer carries `k` uniquely tagged cookies of `size` bytes (harness kinds).
#[derive(Clone, Copy, PartialEq, Eq, Debug)]
struct Step {
    kind: Kind,
    k: usize,
    size: usize,
    dup: Dup,
}
const KINDS: [(Kind, &str); 8] = [
    (Kind::Lost, "L"),
    (Kind::Server, "S"),
    (Kind::Time, "H"),
    (Kind::KissRate, "KR"),
    (Kind::KissUnknown, "KX"),
    (Kind::KissNtsn, "KN"),
    (Kind::Stratum17, "ST"),
    (Kind::WrongMode, "MD"),
];
fn step_str(s: &Step) -> String {
    let name = KINDS.iter().find(|(k, _)| *k == s.kind).unwrap().1;
    let body = match s.kind {
        Kind::Lost | Kind::Server => name.to_string(),
        _ => format!("{name}{}x{}", s.k, s.size),
    };
    match s.dup {
        Dup::No => body,
        Dup::Now => format!("{body}+d"),
        Dup::Late => format!("{body}+l"),
    }
}
fn parse_step(t: &str) -> Option<Step> {
    let (body, dup) = if let Some(b) = t.strip_suffix("+d") {
        (b, Dup::Now)
    } else if let Some(b) = t.strip_suffix("+l") {
        (b, Dup::Late)
    } else {
        (t, Dup::No)
    };
    if body == "L" || body == "S" {
        return Some(Step {
            kind: if body == "L" {
                Kind::Lost
            } else {
                Kind::Server
            },
            k: 0,
            size: 0,
            dup,
        });
    }
    let n = body.find(|c: char| c.is_ascii_digit())?;
    let kind = KINDS.iter().find(|(_, s)| *s == &body[..n])?.0;
    let (k, size) = body[n..].split_once('x')?;
    Some(Step {
        kind,
        k: k.parse().ok()?,
        size: size.parse().ok()?,
        dup,
    })
}
fn steps_str(s: &[Step]) -> String {
    s.iter().map(step_str).collect::<Vec<_>>().join(",")
}

struct ReqView {
    cookie: Vec<u8>,
    cookie_body_len: usize,
    placeholders: Vec<usize>,
    len: usize,
    slot: usize,
}

/// Byte-level view of an NTS request.
fn view(rig: &Rig, req: &[u8]) -> Result<ReqView, String> {
    let (fields, end) = walk(req, 48);
    if end != req.len() {
        return Err(format!(
            "trailing bytes after extension fields at {end} of {}",
            req.len()
        ));
    }
    let cookies: Vec<&Field> = fields.iter().filter(|f| f.ty == T_COOKIE).collect();
    if cookies.len() != 1 {
        return Err(format!("{} cookie fields in one request", cookies.len()));
    }
    if fields.iter().filter(|f| f.ty == T_UID).count() != 1 {
        return Err("no single unique identifier field".into());
    }
    let auth_off = fields
        .iter()
        .find(|f| f.ty == T_AUTH)
        .map(|f| f.off)
        .ok_or("no authenticator")?;
    if open_at(&*rig.c2s, req, auth_off).is_none() {
        return Err("authenticator does not verify under C2S".into());
    }
    if cookies[0].off > auth_off
        || fields
            .iter()
            .any(|f| f.ty == T_PLACEHOLDER && f.off > auth_off)
    {
        return Err("cookie or placeholder after the authenticator".into());
    }
    Ok(ReqView {
        cookie: cookies[0].body.clone(),
        cookie_body_len: cookies[0].body.len(),
        placeholders: fields
            .iter()
            .filter(|f| f.ty == T_PLACEHOLDER)
            .map(|f| f.body.len())
            .collect(),
        len: req.len(),
        slot: pad4(cookies[0].len),
    })
}

type CapTable = BTreeMap<(bool, usize), BTreeMap<(usize, usize), (String, usize, usize)>>;

struct BOut {
    violations: Vec<(String, String)>,
    sends: u64,
    resets_empty: u64,
    resets_other: u64,
    accepted: u64,
    evictions: u64,
    transitions: u64,
    /// deliveries of authenticated non-time answers / duplicates whose cookies were (not) stored
    extra_stored: u64,
    extra_not_stored: u64,
    dup_deliveries: u64,
}

fn fifo_push(before: &[Vec<u8>], add: &[Vec<u8>]) -> (Vec<Vec<u8>>, u64) {
    let mut v = before.to_vec();
    let mut ev = 0;
    for c in add {
        v.push(c.clone());
        if v.len() > 8 {
            v.remove(0);
            ev += 1;
        }
    }
    (v, ev)
}

fn short(cs: &[Vec<u8>]) -> Vec<String> {
    cs.iter()
        .map(|c| common::hex(&c[..c.len().min(8)]))
        .collect()
}

/// Build the datagram for a harness answer kind; returns it with the cookies it carries
/// (as the client would store them).
fn harness_answer(
    rig: &Rig,
    x: &Exchange,
    poll_byte: u8,
    step: &Step,
    tag: &mut u64,
) -> (Vec<u8>, Vec<Vec<u8>>) {
    let v5 = rig.cfg.v5();
    let uid = x.uid.unwrap_or([0; 32]);
    // header fields per kind: (mode, stratum, poll, v5 flags, v4 refid)
    let (mode, stratum, poll, flags, refid): (u8, u8, u8, u8, [u8; 4]) = match step.kind {
        Kind::Time => (4, 2, poll_byte, 1, *b"GPS\0"),
        Kind::KissRate => (4, 0, poll_byte.wrapping_add(1), 0, *b"RATE"),
        Kind::KissUnknown => (4, 0, 0, 0, *b"XXXX"),
        Kind::KissNtsn => (4, 0, 0, 4, *b"NTSN"),
        Kind::Stratum17 => (4, 17, poll_byte, 1, *b"GPS\0"),
        Kind::WrongMode => (3, 2, poll_byte, 1, *b"GPS\0"),
        Kind::Lost | Kind::Server => unreachable!(),
    };
    let mut p = if v5 {
        let mut h = hdr5(0, mode, stratum, poll, flags, [9; 8], x.id8);
        h.extend(ef5(T_UID, &uid));
        h.extend(ef5(T_DRAFT, DRAFT));
        h
    } else {
        let mut h = hdr4(0, 4, mode, stratum, poll, refid, [0; 8], x.id8);
        h.extend(ef4(T_UID, &uid, 16));
        h
    };
    let mut pt = Vec::new();
    let mut cookies = Vec::new();
    for _ in 0..step.k {
        *tag += 1;
        let c = tagged(*tag, step.size);
        pt.extend(ef(v5, T_COOKIE, &c, 0));
        // v4 framing pads the body to a multiple of 4: the padded body is the cookie
        let mut stored = c.clone();
        if !v5 {
            stored.resize(pad4(stored.len()), 0);
        }
        cookies.push(stored);
    }
    let a = authenticator(&*rig.s2c, &p, &pt);
    p.extend(a);
    (p, cookies)
}

/// `steps` are the enumerated polls; afterwards `drain` further polls are each answered by a
/// harness time answer with one fresh cookie, so that every cookie held gets sent.
async fn run_b(
    cfg: Cfg,
    fill: usize,
    steps: &[Step],
    drain: usize,
    caps: Option<&Mutex<CapTable>>,
) -> BOut {
    let v5 = cfg.v5();
    let mut rig = Rig::nts(cfg, fill);
    let mut sent: HashSet<Vec<u8>> = HashSet::new();
    let mut out = BOut {
        violations: vec![],
        sends: 0,
        resets_empty: 0,
        resets_other: 0,
        accepted: 0,
        evictions: 0,
        transitions: 0,
        extra_stored: 0,
        extra_not_stored: 0,
        dup_deliveries: 0,
    };
    let mut tag = 1u64 << 40;
    let trace = format!("B|{}|{fill}|{drain}|{}", cfg.name(), steps_str(steps));
    macro_rules! fail {
        ($class:expr, $($arg:tt)*) => { out.violations.push(($class.to_string(), format!($($arg)*))) };
    }
    let drain_step = Step {
        kind: Kind::Time,
        k: 1,
        size: 104,
        dup: Dup::No,
    };
    let total = steps.len() + drain;
    // datagram to deliver again after the next request went out
    let mut late: Option<(Vec<u8>, Vec<Vec<u8>>)> = None;
    'polls: for i in 0..total {
        let step = if i < steps.len() {
            steps[i]
        } else {
            drain_step
        };
        out.transitions += 1;
        let held: Vec<Vec<u8>> = rig.key().cookies.unwrap_or_default();
        let res = rig.timer();
        let req = match res {
            Out::Send(b, _) => b,
            Out::Reset => {
                if held.is_empty() {
                    out.resets_empty += 1;
                } else {
                    let k = rig.key();
                    if k.reach == 0 && k.tries >= 3 {
                        out.resets_other += 1;
                    } else {
                        fail!(
                            "C13:reset-with-cookies",
                            "poll {i}: Reset although {} cookies are held and the source is reachable",
                            held.len()
                        );
                    }
                }
                break;
            }
            Out::Panic(e) => {
                fail!("C13:panic", "poll {i}: handle_timer panicked: {e}");
                break;
            }
            o => {
                fail!(
                    "C13:request-malformed",
                    "poll {i}: unexpected timer result {o:?}"
                );
                break;
            }
        };
        out.sends += 1;
        if held.is_empty() {
            fail!(
                "C13:send-without-cookie",
                "poll {i}: a request was sent although no cookie is held"
            );
            break;
        }
        let v = match view(&rig, &req) {
            Ok(v) => v,
            Err(e) => {
                fail!("C13:request-malformed", "poll {i}: {e}");
                break;
            }
        };
        let oldest = &held[0];
        let c = oldest.len();
        // the cookie field carries the cookie followed by zero padding only
        let carried_ok = v.cookie.len() >= c
            && v.cookie[..c] == oldest[..]
            && v.cookie[c..].iter().all(|b| *b == 0)
            && v.cookie.len() < c + 16;
        if !carried_ok {
            let pos = held
                .iter()
                .position(|m| v.cookie.len() >= m.len() && v.cookie[..m.len()] == m[..]);
            fail!(
                "C13:not-oldest-first",
                "poll {i}: request carries cookie {}.. which is {} (oldest held is {}..)",
                common::hex(&v.cookie[..v.cookie.len().min(8)]),
                match pos {
                    Some(p) => format!("number {} in the queue", p + 1),
                    None => "not a held cookie".to_string(),
                },
                common::hex(&oldest[..oldest.len().min(8)])
            );
        }
        if !sent.insert(v.cookie[..c.min(v.cookie.len())].to_vec()) {
            fail!(
                "C13:cookie-reused",
                "poll {i}: cookie {}.. was already sent in an earlier request",
                common::hex(&v.cookie[..v.cookie.len().min(8)])
            );
        }
        let after_take: Vec<Vec<u8>> = rig.key().cookies.unwrap_or_default();
        if after_take[..] != held[1..] {
            fail!(
                "C13:stash-contents",
                "poll {i}: after taking the oldest cookie the stash holds {:?}, expected {:?}",
                short(&after_take),
                short(&held[1..])
            );
            break;
        }
        let missing = 8 - after_take.len();
        let requested = v.placeholders.len() + 1;
        if requested > missing {
            fail!(
                "C13:request-count",
                "poll {i}: asks for {requested} new cookies but only {missing} are missing ({} held after taking one)",
                after_take.len()
            );
        }
        if v.placeholders.iter().any(|p| *p != v.cookie_body_len) {
            fail!(
                "C13:request-malformed",
                "poll {i}: placeholder bodies {:?} differ from the cookie body length {}",
                v.placeholders,
                v.cookie_body_len
            );
        }
        if v.len > 1024 {
            fail!(
                "C13:request-malformed",
                "poll {i}: request is {} bytes",
                v.len
            );
        }
        if requested < missing {
            let full = v.len + (missing - requested) * v.slot;
            if full <= 512 {
                fail!(
                    "C13:request-count",
                    "poll {i}: asks for {requested} of {missing} missing cookies although the full request would only be {full} bytes (cookie {c} B)"
                );
            }
        }
        if let Some(t) = caps {
            t.lock()
                .unwrap()
                .entry((v5, c))
                .or_default()
                .entry((missing, requested))
                .or_insert((trace.clone(), v.len, v.slot));
        }
        // ---- deliveries for this poll: [late duplicate of the previous datagram], the answer, [duplicate]
        let x = rig.exchanges.last().cloned().unwrap();
        let answer: Option<(Vec<u8>, Vec<Vec<u8>>)> = match step.kind {
            Kind::Lost => None,
            Kind::Server => x.genuine.clone().map(|g| {
                // learn the delivered cookies with the harness-side walker
                let cookies = open_all(&*rig.s2c, &g)
                    .into_iter()
                    .next()
                    .and_then(|(_, pt)| plaintext_cookies(&pt))
                    .unwrap_or_default();
                (g, cookies)
            }),
            _ => Some(harness_answer(&rig, &x, req[2], &step, &mut tag)),
        };
        let mut deliveries: Vec<(&str, Vec<u8>, Vec<Vec<u8>>)> = Vec::new();
        if let Some((d, cs)) = late.take() {
            deliveries.push(("late duplicate", d, cs));
        }
        if let Some((d, cs)) = &answer {
            deliveries.push(("answer", d.clone(), cs.clone()));
            match step.dup {
                Dup::Now => deliveries.push(("duplicate", d.clone(), cs.clone())),
                Dup::Late => late = Some((d.clone(), cs.clone())),
                Dup::No => {}
            }
        }
        for (what, d, cookies) in deliveries {
            out.transitions += 1;
            let before: Vec<Vec<u8>> = rig.key().cookies.unwrap_or_default();
            let n0 = rig.log_len();
            let acts = rig.incoming(&d);
            let accepted = rig.log_from(n0).iter().any(|l| l.starts_with("meas"));
            let after: Vec<Vec<u8>> = rig.key().cookies.unwrap_or_default();
            let (pushed, ev) = fifo_push(&before, &cookies);
            if what != "answer" {
                out.dup_deliveries += 1;
            }
            if accepted {
                // an accepted time answer: its cookies are the newest ones and must be kept
                out.accepted += 1;
                out.evictions += ev;
                if after != pushed {
                    fail!(
                        "C13:stash-contents",
                        "poll {i} {what} {}: stash holds {:?}, expected the newest <= 8 in arrival order {:?}",
                        step_str(&step),
                        short(&after),
                        short(&pushed)
                    );
                    break 'polls;
                }
            } else {
                // not a time answer (kiss, bad stratum/mode, duplicate, NAK): the statement neither
                // demands nor forbids taking its cookies once; what is kept must still be a FIFO
                // of the newest <= 8 in arrival order
                if after == before {
                    out.extra_not_stored += 1;
                } else if after == pushed {
                    out.extra_stored += 1;
                    out.evictions += ev;
                } else {
                    fail!(
                        "C13:stash-contents",
                        "poll {i} {what} {}: stash holds {:?}, expected either unchanged {:?} or all delivered cookies appended {:?}",
                        step_str(&step),
                        short(&after),
                        short(&before),
                        short(&pushed)
                    );
                    break 'polls;
                }
                if what == "answer" && step.kind == Kind::Time {
                    fail!(
                        "C13:machinery",
                        "poll {i}: harness-built authenticated time answer was not accepted ({acts:?})"
                    );
                    break 'polls;
                }
            }
            if acts.iter().any(|a| a == "Demobilize" || a == "Reset") {
                break 'polls;
            }
        }
        let k = rig.key();
        let now_held = k.cookies.clone().unwrap_or_default();
        if now_held.len() > 8 {
            fail!(
                "C13:stash-contents",
                "after poll {i}: {} cookies held",
                now_held.len()
            );
        }
        let obs = rig.src.observe("x".into(), crate::ClockId(7)).nts_cookies;
        if obs != Some(now_held.len()) {
            fail!(
                "C13:stash-contents",
                "after poll {i}: observable nts_cookies = {obs:?}, {} held",
                now_held.len()
            );
        }
    }
    out
}

fn part_b(ctx: &Ctx) {
    let quick = ctx.quick();
    let caps: Mutex<CapTable> = Mutex::new(BTreeMap::new());
    let st = |kind, k, size, dup| Step { kind, k, size, dup };
    // (config, choices per poll, enumerated polls, drain polls, label)
    let mut plans: Vec<(Cfg, Vec<Step>, usize, usize, &str)> = Vec::new();
    let base: Vec<Step> = [
        st(Kind::Lost, 0, 0, Dup::No),
        st(Kind::Server, 0, 0, Dup::No),
    ]
    .into_iter()
    .chain((0..=9).map(|k| st(Kind::Time, k, 104, Dup::No)))
    .collect();
    let sized: Vec<Step> = [
        st(Kind::Lost, 0, 0, Dup::No),
        st(Kind::Server, 0, 0, Dup::No),
    ]
    .into_iter()
    .chain([16usize, 40, 90, 168, 300, 700].into_iter().flat_map(|s| {
        [1usize, 3, 8, 9]
            .into_iter()
            .map(move |k| st(Kind::Time, k, s, Dup::No))
    }))
    .collect();
    // answers of every kind, each delivered once / twice in a row / again after the next request
    let mut kinds: Vec<Step> = vec![st(Kind::Lost, 0, 0, Dup::No)];
    for dup in [Dup::No, Dup::Now, Dup::Late] {
        kinds.push(st(Kind::Server, 0, 0, dup));
        for k in [1usize, 3, 9] {
            kinds.push(st(Kind::Time, k, 104, dup));
        }
        for kind in [
            Kind::KissRate,
            Kind::KissUnknown,
            Kind::Stratum17,
            Kind::WrongMode,
        ] {
            for k in [1usize, 3] {
                kinds.push(st(kind, k, 104, dup));
            }
        }
        kinds.push(st(Kind::KissNtsn, 1, 104, dup));
    }
    let (p_main, p_512, p_sized, p_kinds) = if quick { (3, 2, 2, 2) } else { (5, 4, 3, 3) };
    for pv in [ProtocolVersion::V4, ProtocolVersion::V5] {
        plans.push((Cfg { pv, k512: false }, base.clone(), p_main, 0, "main"));
        plans.push((Cfg { pv, k512: true }, base.clone(), p_512, 0, "k512"));
        plans.push((Cfg { pv, k512: false }, sized.clone(), p_sized, 0, "sizes"));
        plans.push((
            Cfg { pv, k512: false },
            kinds.clone(),
            p_kinds,
            10,
            "kinds+dup+drain10",
        ));
    }
    ctx.set("b_answer_kinds_with_dup", kinds.len() as u64);
    for (cfg, choices, polls, drain, label) in &plans {
        let per_fill = common::pow(choices.len(), *polls);
        let total = per_fill * 8;
        let stats = Mutex::new([0u64; 9]);
        common::par_for(total, 64, |i| {
            let fill = (i / per_fill) as usize + 1;
            let w = common::word_of(i % per_fill, choices.len(), *polls);
            let seq: Vec<Step> = w.iter().map(|j| choices[*j]).collect();
            let out = super::block_on_paused(run_b(*cfg, fill, &seq, *drain, Some(&caps)));
            let trace = format!("B|{}|{fill}|{drain}|{}", cfg.name(), steps_str(&seq));
            for (class, what) in &out.violations {
                ctx.violation(
                    class,
                    format!("[{} fill {fill}] {what}", cfg.name()),
                    trace.clone(),
                );
            }
            let mut s = stats.lock().unwrap();
            for (a, b) in s.iter_mut().zip([
                out.sends,
                out.resets_empty,
                out.resets_other,
                out.accepted,
                out.evictions,
                out.transitions,
                out.extra_stored,
                out.extra_not_stored,
                out.dup_deliveries,
            ]) {
                *a += b;
            }
            drop(s);
            if out.accepted > 0 {
                ctx.distinct(common::hash_of(&trace));
            }
            if i % 9973 == 11 {
                ctx.sample(format!(
                    "{trace}: {} requests, {} answers accepted, {} cookies evicted",
                    out.sends, out.accepted, out.evictions
                ));
            }
        });
        let s = stats.lock().unwrap();
        ctx.add("evaluations", total);
        ctx.add("transitions", s[5]);
        ctx.add("b_histories", total);
        ctx.add("b_requests_parsed", s[0]);
        ctx.add("b_reset_stash_empty", s[1]);
        ctx.add("b_reset_unreachable", s[2]);
        ctx.add("b_answers_accepted", s[3]);
        ctx.add("b_cookies_evicted_over_8", s[4]);
        ctx.add("b_nontime_or_dup_cookies_stored", s[6]);
        ctx.add("b_nontime_or_dup_cookies_not_stored", s[7]);
        ctx.add("b_duplicate_deliveries", s[8]);
        ctx.add(&format!("b_histories.{}.{label}", cfg.name()), total);
    }
    // ---- structural check of the size cap: requested == min(missing, cap(version, cookie length))
    let caps = caps.into_inner().unwrap();
    let mut table = String::new();
    let mut prev: BTreeMap<bool, (usize, usize)> = BTreeMap::new();
    for ((v5, c), pairs) in &caps {
        let capped: BTreeSet<usize> = pairs
            .iter()
            .filter(|((m, r), _)| r < m)
            .map(|((_, r), _)| *r)
            .collect();
        let max_seen = pairs.keys().map(|(_, r)| *r).max().unwrap_or(0);
        let cap = capped.iter().next().copied();
        if capped.len() > 1 {
            let (t, _, _) = pairs
                .iter()
                .find(|((m, r), _)| r < m)
                .map(|(_, v)| v.clone())
                .unwrap();
            ctx.violation("C13:request-count", format!("cookie {c} B, v5={v5}: the request count is cut to different values {capped:?} for the same packet geometry"), t);
        }
        if let Some(cap) = cap {
            for ((m, r), (t, _, _)) in pairs {
                if *r != (*m).min(cap) {
                    ctx.violation("C13:request-count", format!("cookie {c} B, v5={v5}: asked for {r} with {m} missing, but the size cap observed elsewhere is {cap}"), t.clone());
                }
            }
            if let Some((pc, pcap)) = prev.get(v5) {
                if cap > *pcap {
                    ctx.violation("C13:request-count", format!("v5={v5}: size cap {cap} for {c}-byte cookies exceeds cap {pcap} for shorter {pc}-byte cookies"), pairs.values().next().unwrap().0.clone());
                }
            }
            prev.insert(*v5, (*c, cap));
        }
        ctx.inc("b_cap_table_rows");
        table.push_str(&format!(
            "{}:{}B->{} ",
            if *v5 { "v5" } else { "v4" },
            c,
            match cap {
                Some(x) => format!("cap{x}"),
                None => format!("uncapped(max{max_seen})"),
            }
        ));
    }
    ctx.note("size_cap_table", table.trim());
}

fn replay(ctx: &Ctx, trace: &str) -> String {
    let parts: Vec<&str> = trace.split('|').collect();
    match parts.as_slice() {
        ["A", ops] => {
            let Some(ops) = parse_ops(ops) else {
                return "bad trace".into();
            };
            let (bad, ring) = run_ops(&ops);
            if let Some((class, what)) = &bad {
                ctx.violation(class, what.clone(), trace.to_string());
            }
            format!("ring={ring:?} discrepancy={:?}", bad.map(|b| b.0))
        }
        ["B", cfg, fill, drain, seq] => {
            let (Some(cfg), Ok(fill), Ok(drain)) = (
                Cfg::parse(cfg),
                fill.parse::<usize>(),
                drain.parse::<usize>(),
            ) else {
                return "bad trace".into();
            };
            let Some(seq) = seq
                .split(',')
                .filter(|s| !s.is_empty())
                .map(parse_step)
                .collect::<Option<Vec<_>>>()
            else {
                return "bad trace".into();
            };
            let out = super::block_on_paused(run_b(cfg, fill, &seq, drain, None));
            for (class, what) in &out.violations {
                ctx.violation(class, what.clone(), trace.to_string());
            }
            format!(
                "sends={} accepted={} evicted={} nontime_or_dup_stored={} not_stored={} violations={:?}",
                out.sends,
                out.accepted,
                out.evictions,
                out.extra_stored,
                out.extra_not_stored,
                out.violations
            )
        }
        _ => "bad trace".into(),
    }
}

#[test]
fn check() {
    let ctx = Ctx::new("C13");
    if let Some(t) = common::replay_trace() {
        let a = replay(&ctx, &t);
        let b = replay(&ctx, &t);
        common::report_replay("C13", &a, &b, ctx.violation_count() > 0);
        return;
    }
    ctx.rule(
        "A1: BFS over CookieStash ring states (read, valid) to fixpoint with ops {get, store 0/9/104/1024 B}; A2: every op \
         sequence over {get, store} up to length 14 (quick) / 18 and over {get, store 0 B, store 9 B, store 1024 B} up to \
         length 7 / 10; B: NTS source (v4/v5, 256/512-bit keys) with initial fill 1..=8 x every sequence of 3 (quick) / 5 \
         polls (2 / 4 for 512-bit keys, 2 / 3 for the size sweep) whose answers range over {lost, real server's answer, harness-built \
         authenticated answer with k=0..=9 tagged cookies of 104 B; size sweep: k in {1,3,8,9} x {16,40,90,168,300,700} B}; \
         kinds sweep: 2 (quick) / 3 polls over 40 choices = {lost} + {real server, time answer k in {1,3,9}, authenticated RATE / \
         unknown kiss / stratum 17 / client-mode answer carrying k in {1,3} cookies, authenticated NTS NAK with 1 cookie} x {delivered \
         once, twice in a row, again after the next request}, followed by 10 normally answered polls so every held cookie is sent. \
         distinct non-trivial = A2 sequence that both overflows the ring and reads from an empty stash, or B history with at \
         least one accepted answer.",
    );
    ctx.assume("'limited only by packet size' is read as: requested = min(missing, cap) with cap a non-increasing function of the cookie length per protocol version, which must not reduce the count while the full request would be <= 512 bytes; the concrete (conservative) cap values are reported in the evidence, not judged");
    ctx.assume("cookies carried by authenticated answers that are not time answers (kiss codes, stratum > 16, wrong mode) or by duplicates may or may not be taken: the statement judges only single use, order and capacity, so after such a delivery the stash must be unchanged or have all delivered cookies appended in order");
    ctx.assume("harness-built answers are authenticated with the crate's Cipher::encrypt under the session S2C key");
    part_a(&ctx);
    part_b(&ctx);
    ctx.exhaustive(true);
    ctx.finish();
}
