//! Group gh probe (child of `crate::packet::verif_probe`): read-only views of the private
//! parts of a decoded `NtpPacket` (the three extension-field lists and the MAC).
//! Nothing here changes behaviour of the code under test.
use super::super::{ExtensionField, NtpPacket};

/// Owned copy of the three extension-field lists + Debug rendering of the MAC.
#[derive(Clone, Debug, PartialEq, Eq)]
pub(crate) struct View {
    pub authenticated: Vec<ExtensionField<'static>>,
    pub encrypted: Vec<ExtensionField<'static>>,
    pub untrusted: Vec<ExtensionField<'static>>,
    pub mac: Option<String>,
}

pub(crate) fn view(p: &NtpPacket<'_>) -> View {
    let own = |v: &Vec<ExtensionField<'_>>| -> Vec<ExtensionField<'static>> {
        v.iter().map(|f| f.clone().into_owned()).collect()
    };
    View {
        authenticated: own(&p.efdata.authenticated),
        encrypted: own(&p.efdata.encrypted),
        untrusted: own(&p.efdata.untrusted),
        mac: p.mac.as_ref().map(|m| format!("{m:?}")),
    }
}

/// (authenticated, encrypted, untrusted) list lengths and MAC presence, without cloning.
pub(crate) fn counts(p: &NtpPacket<'_>) -> (usize, usize, usize, bool) {
    (
        p.efdata.authenticated.len(),
        p.efdata.encrypted.len(),
        p.efdata.untrusted.len(),
        p.mac.is_some(),
    )
}
