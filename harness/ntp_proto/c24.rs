//! C24 — NTP packets survive a decode/encode round trip.
//!
//! Engine E-IN over the shared datagram grammar of `c23.rs` (same staged plan, same sweep),
//! decoded without keys. For every input x the decoder accepts (`Ok`):
//!
//! ```text
//! P0 = dec(x)            B1 = enc(P0)   must succeed            (no Err, no panic)
//! P1 = dec(B1)           must succeed   (the encoder's output is decodable)
//! B2 = enc(P1)           must succeed
//! P2 = dec(B2)           must succeed and P2 == P1              (packet stable after one normalising round)
//! B3 = enc(P2)           must succeed and B3 == B2              (bytes stable)
//! ```
//!
//! The oracle is the statement itself; nothing is assumed about *what* the normal form is
//! (how many inputs were changed by the normalising round is only counted).
use std::collections::HashSet;
use std::io::Cursor;

use super::c23::{self, Case, Env, Mutation, Pat, Plan};
use super::common::{self, Ctx};
use crate::packet::{NoCipher, NtpPacket};

/// Large enough for any re-encoding of a <= 12 KiB input (every field grows by < 32 bytes).
const BUF: usize = 32 * 1024;

fn enc(p: &NtpPacket<'_>, buf: &mut [u8]) -> Result<Result<usize, String>, String> {
    common::catch(|| {
        let mut c = Cursor::new(&mut buf[..]);
        match p.serialize(&mut c, &NoCipher, None) {
            Ok(()) => Ok(c.position() as usize),
            Err(e) => Err(format!("{e}")),
        }
    })
}

#[derive(Debug, Clone, PartialEq, Eq)]
enum Rt {
    Rejected,
    /// accepted and stable; `normalised` = the first re-encoding differs from the input
    Stable {
        normalised: bool,
        version: u8,
        fields: usize,
        mac: bool,
        normal_form: u64,
    },
    Violation {
        class: String,
        what: String,
    },
}

fn panic_site(msg: &str) -> &'static str {
    if msg.contains("v5/extension_fields.rs") {
        "-refid-request"
    } else {
        ""
    }
}

/// The complete round-trip oracle for one input.
fn round_trip(x: &[u8], b1: &mut [u8], b2: &mut [u8], b3: &mut [u8]) -> Rt {
    let v = |class: &str, what: String| Rt::Violation {
        class: class.to_string(),
        what,
    };
    let p0 = match common::catch(|| NtpPacket::deserialize(x, &NoCipher)) {
        Ok(Ok((p, _))) => p,
        Ok(Err(_)) => return Rt::Rejected,
        // totality is C23's business; here the input simply is not "accepted"
        Err(_) => return Rt::Rejected,
    };
    let n1 = match enc(&p0, b1) {
        Ok(Ok(n)) => n,
        Ok(Err(e)) => {
            return v(
                "C24:encode-error",
                format!("accepted packet cannot be encoded: {e}; packet {p0:?}"),
            );
        }
        Err(e) => {
            return v(
                &format!("C24:encode-panic{}", panic_site(&e)),
                format!("encoding an accepted packet panicked: {e}; packet {p0:?}"),
            );
        }
    };
    let (a, e, u, mac) = crate::packet::verif_probe::gh::counts(&p0);
    let version = (x[0] >> 3) & 7;
    let p1 = match common::catch(|| NtpPacket::deserialize(&b1[..n1], &NoCipher)) {
        Ok(Ok((p, _))) => p,
        Ok(Err(e)) => {
            return v(
                "C24:reencoded-rejected",
                format!(
                    "dec(enc(P0)) fails with {e}; P0 = {p0:?}; B1 = {}",
                    common::hex(&b1[..n1])
                ),
            );
        }
        Err(e) => {
            return v(
                "C24:redecode-panic",
                format!(
                    "dec(enc(P0)) panicked: {e}; B1 = {}",
                    common::hex(&b1[..n1])
                ),
            );
        }
    };
    let n2 = match enc(&p1, b2) {
        Ok(Ok(n)) => n,
        Ok(Err(e)) => {
            return v(
                "C24:encode-error-round2",
                format!("enc(P1) fails: {e}; P1 = {p1:?}"),
            );
        }
        Err(e) => {
            return v(
                &format!("C24:encode-panic-round2{}", panic_site(&e)),
                format!("enc(P1) panicked: {e}; P1 = {p1:?}"),
            );
        }
    };
    let p2 = match common::catch(|| NtpPacket::deserialize(&b2[..n2], &NoCipher)) {
        Ok(Ok((p, _))) => p,
        Ok(Err(e)) => {
            return v(
                "C24:reencoded-rejected-round2",
                format!("dec(B2) fails with {e}; B2 = {}", common::hex(&b2[..n2])),
            );
        }
        Err(e) => return v("C24:redecode-panic", format!("dec(B2) panicked: {e}")),
    };
    if p2 != p1 {
        return v(
            "C24:unstable-packet",
            format!("dec(B2) != P1: P1 = {p1:?}; dec(B2) = {p2:?}"),
        );
    }
    let n3 = match enc(&p2, b3) {
        Ok(Ok(n)) => n,
        Ok(Err(e)) => {
            return v(
                "C24:encode-error-round3",
                format!("enc(dec(B2)) fails: {e}"),
            );
        }
        Err(e) => {
            return v(
                &format!("C24:encode-panic-round3{}", panic_site(&e)),
                format!("enc(dec(B2)) panicked: {e}"),
            );
        }
    };
    if b3[..n3] != b2[..n2] {
        return v(
            "C24:unstable-bytes",
            format!(
                "enc(dec(B2)) != B2: B2 = {}; B3 = {}",
                common::hex(&b2[..n2]),
                common::hex(&b3[..n3])
            ),
        );
    }
    Rt::Stable {
        normalised: b1[..n1] != *x,
        version,
        fields: a + e + u,
        mac,
        normal_form: n2 as u64,
    }
}

struct Local<'a> {
    ctx: &'a Ctx,
    b1: Vec<u8>,
    b2: Vec<u8>,
    b3: Vec<u8>,
    evals: u64,
    calls: u64,
    bases: u64,
    rejected: u64,
    accepted: [u64; 8],
    normalised: u64,
    with_mac: u64,
    fields: [u64; 5],
    distinct: HashSet<u64>,
}

impl<'a> Local<'a> {
    fn new(ctx: &'a Ctx) -> Self {
        Local {
            ctx,
            b1: vec![0; BUF],
            b2: vec![0; BUF],
            b3: vec![0; BUF],
            evals: 0,
            calls: 0,
            bases: 0,
            rejected: 0,
            accepted: [0; 8],
            normalised: 0,
            with_mac: 0,
            fields: [0; 5],
            distinct: HashSet::new(),
        }
    }
}

impl Drop for Local<'_> {
    fn drop(&mut self) {
        let c = self.ctx;
        c.add("evaluations", self.evals);
        c.add("transitions", self.calls);
        c.add("base_datagrams", self.bases);
        c.add("rejected_inputs", self.rejected);
        for v in [3usize, 4, 5] {
            c.add(&format!("accepted_v{v}"), self.accepted[v]);
        }
        c.add("accepted_changed_by_normalising_round", self.normalised);
        c.add("accepted_with_mac", self.with_mac);
        for (i, n) in self.fields.iter().enumerate() {
            c.add(
                &format!("accepted_with_{i}{}_fields", if i == 4 { "+" } else { "" }),
                *n,
            );
        }
        c.distinct_many(self.distinct.drain());
    }
}

fn run_case(
    found: &c23::Findings,
    st: &mut Local<'_>,
    stage: usize,
    index: u64,
    case: &Case,
    pats: &[Pat],
) {
    st.bases += 1;
    let base_key = (stage as u64) << 48 | index;
    let Local { b1, b2, b3, .. } = st;
    let (mut evals, mut calls, mut rejected, mut normalised_n, mut with_mac) =
        (0u64, 0u64, 0u64, 0u64, 0u64);
    let mut accepted = [0u64; 8];
    let mut fields_n = [0u64; 5];
    let mut distinct: Vec<u64> = Vec::new();
    let mut body = |bytes: &[u8], _m: Mutation| {
        evals += 1;
        match round_trip(bytes, b1, b2, b3) {
            Rt::Rejected => {
                rejected += 1;
                calls += 1;
            }
            Rt::Stable {
                normalised,
                version,
                fields,
                mac,
                normal_form,
            } => {
                calls += 6;
                accepted[version as usize & 7] += 1;
                normalised_n += normalised as u64;
                with_mac += mac as u64;
                fields_n[fields.min(4)] += 1;
                // non-trivial: an accepted datagram with at least one field or a MAC; distinct by
                // (base, length of the normal-form encoding B2, number of fields, MAC present)
                if fields > 0 || mac {
                    distinct.push(common::hash_of(&(base_key, normal_form, fields, mac)));
                }
            }
            Rt::Violation { class, what } => {
                calls += 2;
                found.report(
                    &class,
                    format!("{what} [mutant of {}]", case.desc),
                    common::hex(bytes),
                );
            }
        }
    };
    if case.swept {
        c23::sweep(&case.built, pats, &mut body);
    } else {
        body(&case.built.bytes, Mutation::None);
    }
    st.evals += evals;
    st.calls += calls;
    st.rejected += rejected;
    st.normalised += normalised_n;
    st.with_mac += with_mac;
    for i in 0..8 {
        st.accepted[i] += accepted[i];
    }
    for i in 0..5 {
        st.fields[i] += fields_n[i];
    }
    st.distinct.extend(distinct);
}

fn replay(ctx: &Ctx, trace: &str) -> String {
    // trace: hex datagram
    let Some(bytes) = common::unhex(trace) else {
        return "unparsable trace".into();
    };
    let (mut b1, mut b2, mut b3) = (vec![0; BUF], vec![0; BUF], vec![0; BUF]);
    let r = round_trip(&bytes, &mut b1, &mut b2, &mut b3);
    if let Rt::Violation { class, what } = &r {
        ctx.violation(class, what.clone(), trace);
    }
    format!("{r:?}")
}

#[test]
fn check() {
    let ctx = Ctx::new("C24");
    if let Some(t) = common::replay_trace() {
        let a = replay(&ctx, &t);
        let b = replay(&ctx, &t);
        common::report_replay("C24", &a, &b, ctx.violation_count() > 0);
        return;
    }
    let env = Env::new();
    let plan = Plan::new(ctx.quick(), &env);
    let pats = c23::patterns(ctx.quick());
    ctx.rule(&format!(
        "{} Every datagram is decoded with NoCipher; every accepted one goes through dec/enc/dec/enc/dec/enc and must re-encode \
         without error or panic, re-decode, and be stable (packet and bytes) after the first re-encoding. distinct & non-trivial = \
         distinct (base datagram, length of the normal-form encoding B2, number of fields, MAC present) tuples of accepted datagrams that carry at least one extension field or a MAC. [{}]",
        c23::RULE_GRAMMAR,
        plan.describe()
    ));
    ctx.assume("'accepts (without keys)' = NtpPacket::deserialize(x, &NoCipher) returns Ok; Err(DecryptError(packet)) is a rejection");
    ctx.assume("the encoder gets a 32 KiB buffer: running out of buffer space is not the error the statement is about");
    ctx.assume("release profile as shipped (debug assertions off)");
    let found = c23::Findings::new();
    ctx.set("harness_self_test_failures", env.self_test.len() as u64);
    if !env.self_test.is_empty() {
        ctx.note("harness_self_test", &env.self_test.join("; "));
    }
    let mut completed = 0;
    for s in 0..plan.stages.len() {
        if s > 0 && ctx.over_budget() {
            ctx.cap_hit(&format!(
                "stage {s} ({}) not started; stages < {s} complete",
                plan.stages[s].label
            ));
            break;
        }
        let total = plan.stage_total(s);
        ctx.add(&format!("stage{s}_bases"), total);
        let chunk = if plan.stages[s].blocks.iter().any(|b| b.swept) {
            1
        } else {
            64
        };
        common::par_for_with(
            total,
            chunk,
            || Local::new(&ctx),
            |st, i| {
                let case = plan.build(&env, s, i);
                if i % 9973 == 1 {
                    ctx.sample(format!(
                        "stage {s} base {i}: {} ({} bytes{})",
                        case.desc,
                        case.built.bytes.len(),
                        if case.swept { ", swept" } else { "" }
                    ));
                }
                run_case(&found, st, s, i, &case, &pats);
            },
        );
        completed = s + 1;
    }
    found.flush(&ctx);
    ctx.set("stages_completed", completed as u64);
    ctx.set("states", ctx.get("base_datagrams"));
    ctx.set(
        "accepted_inputs",
        ctx.get("accepted_v3") + ctx.get("accepted_v4") + ctx.get("accepted_v5"),
    );
    ctx.exhaustive(completed == plan.stages.len());
    ctx.finish();
}
