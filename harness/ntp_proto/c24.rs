//! C24: not implemented yet.
