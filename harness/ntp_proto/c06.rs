//! C06 — Clock filter output stays finite and well-formed.
//!
//! Same explicit-state engine as C01 (`super::c01`), extreme-value alphabet. The Kalman
//! stage of a source only starts after 8 samples, so exploration starts from pre-built
//! post-initialisation states (8 benign / 8 identical / 8 alternating-extreme samples, for
//! a two-way and for a one-way source) and is exhaustive from there.
//!
//! `NtpDuration::from_seconds` silently turns NaN into 0 and +-inf into +-MAX, so the
//! published fixed-point values can never *look* non-finite. The oracle therefore reads
//! the f64 values behind them (read-only probes): the snapshot every `observe()` and every
//! source message is built from, the steering value of every step / frequency message,
//! the f64 fields of every published `TimeSnapshot`, and the radicand of its
//! `root_dispersion` (the error estimate handed to the clock).
use std::hash::Hash;

use super::c01::{
    self, A, B, Call, Cfg, End, Ev, G, MS, Report, S, Spec, Transition, explore, prefix_usable,
    replay_with, run_specs,
};
use super::common::{self, Ctx};

#[derive(Default, Hash, Clone, Debug)]
struct M06;

fn check_snap(f: &[f64; 8], whence: &str, slot: usize, r: &mut Report) {
    // [offset, frequency, p00, p01, p10, p11, wander, delay]
    if !f[0].is_finite() {
        r.viol(
            "C06:source-offset-nonfinite",
            format!("{whence} of source {slot}: offset {:e}", f[0]),
        );
    }
    if f[2].is_nan() || f[2].is_infinite() {
        r.viol(
            "C06:source-variance-nonfinite",
            format!("{whence} of source {slot}: offset variance {:e}", f[2]),
        );
    } else if f[2] < 0.0 {
        r.viol(
            "C06:source-variance-negative",
            format!("{whence} of source {slot}: offset variance {:e} (uncertainty = sqrt = NaN, published as 0)", f[2]),
        );
    }
    if !f[7].is_finite() {
        r.viol(
            "C06:source-delay-nonfinite",
            format!("{whence} of source {slot}: delay {:e}", f[7]),
        );
    }
    // not part of the statement, kept as visible diagnostics
    if !f[1].is_finite()
        || !f[5].is_finite()
        || f[5] < 0.0
        || !f[3].is_finite()
        || !f[6].is_finite()
    {
        r.inc("diag_frequency_part_of_estimate_not_wellformed");
    }
}

fn judge06(_cfg: &Cfg, _m: &mut M06, tr: &Transition, rep: Option<&mut Report>) {
    let Some(r) = rep else { return };
    for (slot, f) in &tr.produced {
        match f {
            Some(f) => {
                r.inc("source_messages");
                check_snap(f, "source message", *slot, r);
            }
            None => r.inc("measurements_without_message"),
        }
    }
    for v in &tr.views {
        r.inc("observe_calls");
        if v.phase == 8 {
            r.inc("observe_calls_kalman_stage");
        }
        if let Some(f) = &v.snap {
            check_snap(f, "observe()", v.slot, r);
            if f[2] == 0.0 {
                r.inc("observed_zero_variance");
            }
            if f[0].abs() >= 1e9 {
                r.inc("observed_offset_beyond_1e9_s");
            }
        }
        if v.obs[1] < 0 {
            r.viol(
                "C06:source-uncertainty-negative",
                format!(
                    "observe() of source {} reports uncertainty {} units",
                    v.slot, v.obs[1]
                ),
            );
        }
    }
    for u in &tr.upds {
        for c in &u.calls {
            match c {
                Call::SetFreq(f) => {
                    r.inc("set_frequency_calls");
                    if !f.is_finite() {
                        r.viol(
                            "C06:clock-frequency-nonfinite",
                            format!("set_frequency({f:e})"),
                        );
                    }
                }
                Call::Step(_) => r.inc("steps"),
                Call::ErrEst(..) => r.inc("error_estimate_updates"),
                _ => {}
            }
        }
        if let Some((kind, steer, _)) = u.steer {
            if !steer.is_finite() {
                r.viol(
                    if kind == 0 {
                        "C06:clock-step-nonfinite"
                    } else {
                        "C06:frequency-change-nonfinite"
                    },
                    format!("steering value {steer:e} (kind {kind})"),
                );
            }
        }
        if let Some(s) = &u.snap {
            let fields = [
                s.root_variance_base,
                s.root_variance_linear,
                s.root_variance_quadratic,
                s.root_variance_cubic,
            ];
            if fields.iter().any(|f| !f.is_finite()) {
                r.viol(
                    "C06:time-snapshot-nonfinite",
                    format!("published TimeSnapshot root variance terms {fields:?}"),
                );
            } else {
                // error estimate handed to the clock = root_dispersion(base time) = sqrt(base)
                // were all estimates that went into the combination positive semi-definite?
                let inputs_psd = u.used.as_ref().is_some_and(|used| {
                    used.iter().all(|id| {
                        u.table.iter().any(|(tid, _, f, _)| {
                            tid == id
                                && f.is_some_and(|f| {
                                    f[2] >= 0.0 && f[5] >= 0.0 && f[2] * f[5] - f[3] * f[4] >= 0.0
                                })
                        })
                    })
                });
                if u.used.is_some() && fields[0] < 0.0 && inputs_psd {
                    r.viol(
                        "C06:combined-variance-negative",
                        format!(
                            "combination of {} positive semi-definite source estimates has offset variance {:e} < 0: error estimate sqrt() is NaN (passed to the clock as 0); inputs (id, usable, [offset,freq,p00,p01,p10,p11,wander,delay], dispersion units): {:?}",
                            u.used.as_ref().map_or(0, |v| v.len()),
                            fields[0],
                            u.table
                        ),
                    );
                } else if u.used.is_some() && fields[0] < 0.0 {
                    r.viol(
                        "C06:error-estimate-nan",
                        format!("root_variance_base {:e} < 0: error estimate sqrt() is NaN (passed to the clock as 0)", fields[0]),
                    );
                }
                // what clients are served while the snapshot is current (t seconds after its base time)
                for t in [1.0f64, 131072.0] {
                    let rad =
                        fields[0] + t * fields[1] + t.powi(2) * fields[2] + t.powi(3) * fields[3];
                    if !(rad >= 0.0) || rad.is_infinite() {
                        r.viol(
                            "C06:root-dispersion-radicand-not-wellformed",
                            format!("root dispersion {t} s after the update: radicand {rad:e} from {fields:?}"),
                        );
                    }
                }
                if u.used.is_some() {
                    r.inc("snapshots_with_consensus");
                }
                // vacuity bookkeeping for the multi-source combine step: how many estimates were
                // merged, and was one of them exactly singular (det == 0, no dispersion added)?
                if let Some(used) = &u.used {
                    if used.len() >= 2 {
                        r.inc("combines_of_2_or_more_sources");
                        if used.len() >= 3 {
                            r.inc("combines_of_3_sources");
                        }
                        let singular = |id: &u64| {
                            u.table.iter().any(|(tid, _, f, disp)| {
                                tid == id
                                    && *disp == 0
                                    && f.is_some_and(|f| f[2] * f[5] - f[3] * f[4] == 0.0)
                            })
                        };
                        if used.iter().any(singular) {
                            r.inc("combines_of_2_or_more_with_a_singular_covariance");
                            if u.src != 0 && singular(&u.src) {
                                r.inc("combines_with_singular_source_triggered_by_its_own_message");
                            } else {
                                r.inc("combines_with_singular_source_triggered_by_another_message");
                            }
                        }
                    }
                }
            }
        }
        match &u.end {
            End::Ok => {
                if u.next_update.is_some() {
                    r.inc("slews_started");
                }
            }
            End::Exit => r.inc("exits"),
            End::Panic(site, msg) => {
                r.inc("panics");
                r.viol(format!("C06:panic[{site}]"), msg.clone());
            }
        }
    }
    if let End::Panic(site, msg) = &tr.end {
        if tr.upds.iter().all(|u| !matches!(u.end, End::Panic(..))) {
            r.inc("panics");
            r.viol(format!("C06:panic[{site}]"), msg.clone());
        }
    }
    if let Some(v) = tr.views.last() {
        if let Some(f) = v.snap {
            r.note = Some(format!(
                "source {} phase {} offset {:e} variance {:e} delay {:e}",
                v.slot, v.phase, f[0], f[2], f[7]
            ));
        }
    }
}

const U30: i64 = 1i64 << 62; // 2^30 s
const D_MAX: i64 = 65535 * S;
const MAX_SHORT: i64 = 0xFFFF_FFFFi64 << 16; // largest NTP short-format value (root delay / dispersion)
const DT_MS: i64 = S / 1000;
const DT_BIG: i64 = 131072 * S; // 2^17 s
const US: i64 = 4295; // 1e-6 s

fn m(src: u8, off: i64, delay: i64, dt: i64) -> Ev {
    Ev::meas(src, off, delay, dt)
}

fn alphabet06_core() -> Vec<Ev> {
    vec![
        // two-way A
        m(A, 0, US, S),
        m(A, 1, 1, DT_MS),
        m(A, -1, 1, DT_BIG),
        m(A, U30, 1, DT_MS),
        m(A, -U30, 1, DT_BIG),
        m(A, U30, D_MAX, DT_MS),
        m(A, -U30, D_MAX, DT_BIG),
        m(A, 1, D_MAX, DT_MS),
        m(A, -1, D_MAX, DT_BIG),
        m(A, U30, US, S),
        m(A, -U30, US, S),
        m(A, S, S, S),
        m(A, -S, US, DT_BIG),
        m(A, 0, 1, DT_BIG),
        m(A, 0, D_MAX, DT_MS),
        m(A, 0, US, S).with_root(MAX_SHORT, MAX_SHORT),
        m(A, U30, 1, DT_BIG).with_root(MAX_SHORT, MAX_SHORT),
        m(A, -U30, D_MAX, DT_MS).with_root(MAX_SHORT, MAX_SHORT),
        m(A, 0, S, DT_MS),
        m(A, S, US, DT_MS),
        // zero / negative / most negative round-trip delay (clock stepped during an exchange)
        m(A, -1, 0, DT_MS),
        m(A, 0, -S, S),
        m(A, S, i64::MIN, S),
        // one-way G
        m(G, 0, 0, S),
        m(G, 1, 0, DT_MS),
        m(G, -U30, 0, DT_BIG),
        m(G, U30, 0, DT_MS),
        m(G, i64::MIN, 0, S),
        m(G, i64::MAX, 0, DT_BIG),
        m(G, -S, 0, S).with_root(MAX_SHORT, MAX_SHORT),
        // second two-way source (combination of several estimates)
        m(B, 0, US, S),
        m(B, U30, 1, DT_MS),
        m(B, -1, D_MAX, DT_BIG),
        m(B, 0, -S, S),
        // large common offset / delay with tiny distinct jitter (post-initialisation: delay buffer, noise estimate)
        Ev::burst(A, 3600 * S, S, S, 8, US, 1).with_pattern(1),
        Ev::burst(G, -86_400 * S, 0, S, 8, 1, 0).with_pattern(2),
        Ev::Tick,
    ]
}

fn alphabet06_full() -> Vec<Ev> {
    let mut v = Vec::new();
    for off in [0, 1, -1, S, -S, U30, -U30] {
        for delay in [i64::MIN, -S, 0, 1, US, S, D_MAX] {
            for dt in [DT_MS, S, DT_BIG] {
                for root in [0, MAX_SHORT] {
                    v.push(m(A, off, delay, dt).with_root(root, root));
                }
            }
        }
    }
    for off in [0, 1, -1, S, -S, U30, -U30, i64::MIN, i64::MAX] {
        for dt in [DT_MS, S, DT_BIG] {
            for root in [0, MAX_SHORT] {
                v.push(m(G, off, 0, dt).with_root(root, root));
            }
        }
    }
    v.push(Ev::Tick);
    v
}

fn starts06() -> Vec<(String, Vec<Ev>)> {
    let mut v = Vec::new();
    for (src, tag) in [(A, "two-way"), (G, "one-way")] {
        let d = if src == A { MS } else { 0 };
        let mut p = prefix_usable();
        p.push(Ev::burst(
            src,
            0,
            d,
            S,
            8,
            MS / 10,
            if src == A { MS / 50 } else { 0 },
        ));
        v.push((format!("benign/{tag}"), p));
        let mut p = prefix_usable();
        p.push(Ev::burst(src, 0, d, S, 8, 0, 0));
        v.push((format!("identical/{tag}"), p));
        // offsets cycle -2^30 s, 0, +2^30 s; two-way delays alternate 1 unit / 65535 s
        let mut p = prefix_usable();
        p.push(Ev::burst(
            src,
            0,
            if src == A { 1 } else { 0 },
            S,
            8,
            U30,
            if src == A { D_MAX } else { 0 },
        ));
        v.push((format!("alternating-extreme/{tag}"), p));
    }
    // both kinds of source past initialisation at once: a well-behaved two-way source next to
    // a one-way source initialised from alternating extreme samples, and vice versa
    let mut p = prefix_usable();
    p.push(Ev::burst(A, 0, MS, S, 8, MS / 10, MS / 50));
    p.push(Ev::burst(G, 0, 0, S, 8, U30, 0));
    v.push((
        "benign two-way + alternating-extreme one-way".to_string(),
        p,
    ));
    let mut p = prefix_usable();
    p.push(Ev::burst(G, 0, 0, S, 8, MS / 10, 0));
    p.push(Ev::burst(A, 0, 1, S, 8, U30, D_MAX));
    v.push((
        "benign one-way + alternating-extreme two-way".to_string(),
        p,
    ));
    v
}

fn configs06() -> Vec<Cfg> {
    vec![
        // shipped algorithm configuration, no panic thresholds (exits would hide later behaviour)
        Cfg::default(),
        // every source selectable whatever its uncertainty: extreme estimates reach selection,
        // combination, steering and the published snapshot
        Cfg {
            max_src_unc: 1e300,
            order: 1,
            ..Cfg::default()
        },
    ]
}

fn replay(ctx: &Ctx, trace: &str) -> String {
    replay_with::<M06, _>(ctx, trace, &judge06)
}

#[test]
fn check() {
    let ctx = Ctx::new("C06");
    if let Some(t) = common::replay_trace() {
        let a = replay(&ctx, &t);
        let b = replay(&ctx, &t);
        common::report_replay("C06", &a, &b, ctx.violation_count() > 0);
        return;
    }
    let quick = ctx.quick();
    let core = alphabet06_core();
    let full = alphabet06_full();
    let (d_core, d_full) = if quick { (3, 1) } else { (4, 2) };
    let d_per = if quick { 3 } else { 5 };
    let d_jit = if quick { 2 } else { 3 };
    let d_sing = if quick { 3 } else { 4 };
    let (run_rounds, d_run) = if quick { (32u16, 2) } else { (64u16, 3) };
    ctx.rule(&format!(
        "From each of 8 pre-built post-initialisation states (8 benign / 8 identical / 8 alternating-extreme samples x two-way A / one-way G, plus benign two-way next to alternating-extreme one-way and vice versa) and for 2 configurations \
         (shipped algorithm defaults; maximum_source_uncertainty unlimited so that extreme estimates are selected and steered on), BFS over all measurement histories of \
         <= {d_core} events over the {}-symbol core alphabet (every value of offset {{0,+-2^-32 s,+-1 s,+-2^30 s; one-way also i64::MIN/MAX}}, delay {{i64::MIN units,-1 s,0,2^-32 s,1 us,1 s,65535 s}}, \
         dt {{1 ms,1 s,2^17 s}}, root delay/dispersion {{0, max short}} occurs, all pairs of extreme values occur; second two-way source B; slew-end timer) and <= {d_full} events \
         over the {}-symbol full product alphabet; steering fed back to every source, the mock clock's steps move the local time of later measurements; plus (one-way source made periodic, period 1 s) \
         all histories of <= {d_per} events over a 13-symbol alphabet with offsets at and around +-period/2 from 2 start states. \
         Plus large-common-value-plus-tiny-jitter cases: 8-sample initialisation bursts with offset base {{+-60, +-3600, +-86400, +-1e6, +-2^29 s}} (two-way and one-way) or delay base \
         {{1, 3600, 65535 s}} x jitter scale {{2^-32 s, 1 us, 1 ms}} x pattern {{monotone, alternating; thorough also irregular}} x configuration {{quorum 2 = nothing steered before the 8th sample, \
         quorum 1, all sources selectable}}, each followed by all histories of <= {d_jit} events over an 11-symbol alphabet built around the same base and jitter. \
         Plus exactly-singular-covariance cases: a source with identical (sub-floor or equal) delays and/or identical initial offsets next to 1 or 2 healthy agreeing sources in their Kalman stage, \
         quorum 1|2, both merge orders, <= {d_sing} events over a 10-symbol alphabet that keeps the delays identical (own-message and other-message triggered combines, root dispersion 0 and max). \
         Plus long realistic runs as start states: {run_rounds} polling rounds (0.25 s apart, LCG jitter, steering and slew timer fed back) of WAN servers (delay 10+-1 ms, offset +-200 us, dispersion 1 ms) \
         next to local-segment servers below the delay floor (dispersion 0 or 1 us) in the mixes WWL, WLL, WWM, WL, WWWL (thorough also LL, WWLL, timer firing late), each in ALL n! iteration orders of the controller's source table, \
         followed by all histories of <= {d_run} events over a 13-symbol alphabet (further realistic and abrupt measurements, 4 and 8 more polling rounds, timer, usability). \
         States deduplicated on exact bit patterns. Distinct & non-trivial = distinct end state reached by a transition that invoked the controller.",
        core.len(),
        full.len()
    ));
    ctx.assume("local time between measurements advances by exactly dt on both the system and the monotonic clock (no meddling), plus the steps the daemon itself applies");
    ctx.assume(
        "the per-measurement precision field is not an axis: the Kalman code never reads it",
    );
    ctx.assume("f64 values behind the published fixed-point numbers are read through read-only probes, because NtpDuration::from_seconds maps NaN to 0 and inf to MAX");
    ctx.note(
        "alphabet_core",
        &core
            .iter()
            .map(|e| e.encode())
            .collect::<Vec<_>>()
            .join(" "),
    );
    let mut specs = Vec::new();
    for cfg in configs06() {
        for (name, prefix) in starts06() {
            for (alpha, depth, tag) in [(&core, d_core, "core"), (&full, d_full, "full")] {
                specs.push(Spec {
                    rank: if cfg.max_src_unc > 1.0 { 1 } else { 0 },
                    name: format!("{name}/{tag}"),
                    cfg: cfg.clone(),
                    prefix: prefix.clone(),
                    alphabet: alpha.clone(),
                    depth,
                });
            }
        }
    }
    // the one-way source made periodic (PPS-like, period 1 s): wrap-around arithmetic of the
    // filter, offsets at and around +-period/2, next to a voting two-way source
    let periodic: Vec<Ev> = vec![
        m(A, 0, US, S),
        m(A, S / 5, US, DT_BIG),
        m(A, -S, 1, DT_MS),
        m(G, 0, 0, S),
        m(G, 1, 0, DT_MS),
        m(G, S / 2, 0, S),
        m(G, -S / 2, 0, DT_BIG),
        m(G, S / 2 + 1, 0, DT_MS),
        m(G, 3 * S / 4, 0, S),
        m(G, -13 * S / 4, 0, S),
        m(G, 2 * S / 5, 0, S).with_root(MAX_SHORT, MAX_SHORT),
        Ev::burst(G, S / 2, 0, S, 8, 1, 0),
        Ev::Tick,
    ];
    for cfg in configs06() {
        let cfg = Cfg {
            sources: c01::periodic_sources(),
            ..cfg
        };
        for (name, prefix) in [
            ("periodic/fresh", prefix_usable()),
            ("periodic/two-way benign", {
                let mut p = prefix_usable();
                p.push(Ev::burst(A, 0, MS, S, 8, MS / 10, MS / 50));
                p
            }),
        ] {
            specs.push(Spec {
                rank: if cfg.max_src_unc > 1.0 { 1 } else { 0 },
                name: name.to_string(),
                cfg: cfg.clone(),
                prefix,
                alphabet: periodic.clone(),
                depth: d_per,
            });
        }
    }
    // "large common value + tiny distinct jitter": initialisation bursts whose 8 samples share a
    // large base (offset, or round-trip delay) and differ only by units .. milliseconds. This is
    // where a sample variance computed with cancellation goes negative. Each burst is run (a) with
    // a quorum of 2 so that nothing is steered before the 8th sample, (b) with the shipped quorum
    // of 1 (the controller steps on the way), (c) with every source selectable; then followed by
    // all histories over a small alphabet built around the same base/jitter (continuation,
    // jump to 0 / -base, further large-base tiny-jitter bursts incl. delay jitter, a second
    // source agreeing or not, clock meddling = re-initialisation, timer).
    let mut jitter_specs = 0u64;
    {
        let bases: [i64; 10] = [
            60 * S,
            -60 * S,
            3600 * S,
            -3600 * S,
            86_400 * S,
            -86_400 * S,
            1_000_000 * S,
            -1_000_000 * S,
            1i64 << 61,
            -(1i64 << 61),
        ];
        let scales: [(i64, &str); 3] = [(1, "1u"), (US, "1us"), (MS, "1ms")];
        let patterns: &[u8] = if quick { &[1, 2] } else { &[1, 2, 3] };
        let cfgs = [
            (
                Cfg {
                    min_agree: 2,
                    ..Cfg::default()
                },
                "quorum2",
                0u8,
            ),
            (Cfg::default(), "quorum1", 0u8),
            (
                Cfg {
                    max_src_unc: 1e300,
                    order: 1,
                    ..Cfg::default()
                },
                "unlimited",
                1u8,
            ),
        ];
        // (source under initialisation, offset base, delay base, offset jitter, delay jitter)
        let mut cases: Vec<(u8, i64, i64, i64, i64, String)> = Vec::new();
        for &b in &bases {
            for &(j, jn) in &scales {
                cases.push((
                    A,
                    b,
                    MS,
                    j,
                    j.min(MS / 50),
                    format!("two-way offset {}s jitter {jn}", b / S),
                ));
                cases.push((
                    G,
                    b,
                    0,
                    j,
                    0,
                    format!("one-way offset {}s jitter {jn}", b / S),
                ));
            }
        }
        for db in [S, 3600 * S, D_MAX] {
            for &(j, jn) in &scales {
                cases.push((
                    A,
                    MS,
                    db,
                    j,
                    j,
                    format!("two-way delay {}s jitter {jn}", db / S),
                ));
            }
        }
        for (x, b, db, j, dj, name) in &cases {
            let (x, b, db, j, dj) = (*x, *b, *db, *j, *dj);
            let y = if x == A { B } else { A };
            for &pat in patterns {
                let follow: Vec<Ev> = vec![
                    m(x, b, db, S),
                    m(x, b.saturating_add(j), db, DT_MS),
                    m(x, 0, db, S),
                    m(x, b.saturating_neg(), db, DT_BIG),
                    Ev::burst(x, b, db, S, 8, j, dj).with_pattern(1),
                    Ev::burst(x, b, db.max(S), S, 8, j, 1).with_pattern(2),
                    m(y, b, US, S),
                    Ev::burst(y, b, MS, S, 8, j, 1).with_pattern(pat),
                    m(y, 0, US, S),
                    m(x, b, db, S).with_mono(100_000_000_000),
                    Ev::Tick,
                ];
                for (cfg, cn, rank) in &cfgs {
                    let mut prefix = prefix_usable();
                    prefix.push(Ev::burst(x, b, db, S, 8, j, dj).with_pattern(pat));
                    specs.push(Spec {
                        rank: *rank,
                        name: format!("jitter/{name}/pat{pat}/{cn}"),
                        cfg: cfg.clone(),
                        prefix,
                        alphabet: follow.clone(),
                        depth: d_jit,
                    });
                    jitter_specs += 1;
                }
            }
        }
    }
    ctx.set("jitter_burst_explorations", jitter_specs);
    // exactly singular covariance inside a multi-source combine: a source whose measurement
    // noise estimate is exactly 0 (all buffered delays identical: below the MIN_DELAY floor, or
    // simply equal) and/or whose 8 initial offsets are identical has covariance [[0,0],[0,c]]
    // right after its own message (dt = 0, no process noise). Here it is always accompanied by
    // one or two healthy agreeing sources already in their Kalman stage, under quorum 1 and 2 and
    // both merge orders, and the alphabet keeps its delays identical, so that select+combine
    // merges >= 2 snapshots one of which is singular - triggered by its own and by other messages.
    let mut singular_specs = 0u64;
    {
        // (name, singular source, its burst, the delay that keeps its noise estimate at 0)
        let kinds: Vec<(&str, u8, Ev, i64)> = vec![
            (
                "two-way sub-floor delays, distinct offsets",
                A,
                Ev::burst(A, 0, 1, S, 8, MS / 10, 0),
                1,
            ),
            (
                "two-way sub-floor delays, identical offsets",
                A,
                Ev::burst(A, 0, 1, S, 8, 0, 0),
                1,
            ),
            (
                "two-way identical 1 ms delays and offsets",
                A,
                Ev::burst(A, 0, MS, S, 8, 0, 0),
                MS,
            ),
            (
                "one-way identical offsets",
                G,
                Ev::burst(G, 0, 0, S, 8, 0, 0),
                0,
            ),
        ];
        for (kname, x, xburst, d) in &kinds {
            let (x, d) = (*x, *d);
            // companions: one or two of the other sources, benign, in their Kalman stage
            let others: Vec<u8> = [A, B, G].into_iter().filter(|s| *s != x).collect();
            for ncomp in [1usize, 2] {
                let comp = &others[..ncomp];
                let benign = |s: u8| {
                    if s == G {
                        Ev::burst(G, 0, 0, S, 8, MS / 10, 0)
                    } else {
                        Ev::burst(s, 0, MS, S, 8, MS / 10, MS / 50)
                    }
                };
                let mut prefix = prefix_usable();
                for &c in comp {
                    prefix.push(benign(c));
                }
                prefix.push(xburst.clone());
                let y = comp[0];
                let yd = if y == G { 0 } else { MS };
                let follow: Vec<Ev> = vec![
                    m(x, 0, d, S),
                    m(x, 1, d, DT_MS),
                    m(x, -1, d, DT_BIG),
                    m(x, 50 * US, d, S),
                    m(x, 0, d, S).with_root(MAX_SHORT, MAX_SHORT),
                    m(y, 0, yd, S),
                    m(y, 1, yd, DT_MS),
                    m(
                        *comp.last().unwrap(),
                        20 * US,
                        if *comp.last().unwrap() == G { 0 } else { MS },
                        S,
                    ),
                    Ev::Usable { src: y, on: false },
                    Ev::Tick,
                ];
                for min_agree in [1usize, 2] {
                    for order in [0u8, 1] {
                        specs.push(Spec {
                            rank: 0,
                            name: format!(
                                "singular/{kname}/{ncomp} companion(s)/quorum{min_agree}/ord{order}"
                            ),
                            cfg: Cfg {
                                min_agree,
                                order,
                                ..Cfg::default()
                            },
                            prefix: prefix.clone(),
                            alphabet: follow.clone(),
                            depth: d_sing,
                        });
                        singular_specs += 1;
                    }
                }
            }
        }
    }
    ctx.set("singular_covariance_explorations", singular_specs);
    // long realistic runs as start states (`Ev::Run`): WAN servers (W) next to servers on the local
    // segment whose round trip is below the delay floor (L: root dispersion 0, M: 1 us), polled
    // round robin every 0.25 s with LCG jitter and steering fed back, in EVERY iteration order of
    // the controller's source table (n! orders: the order decides which estimates are merged
    // first), followed by all short histories over an alphabet of further realistic and a few
    // abrupt measurements, more polling rounds, timer, usability changes.
    let mut n_run_specs = 0u64;
    {
        let quarter = S / 4;
        let profiles: &[&str] = if quick {
            &["WWL", "WLL", "WWM", "WL", "WWWL"]
        } else {
            &["WWL", "WLL", "WWM", "WL", "LL", "WWWL", "WWLL"]
        };
        for classes in profiles {
            let n = classes.len();
            let l = classes.bytes().position(|c| c != b'W').unwrap_or(0) as u8;
            let w = classes.bytes().position(|c| c == b'W').unwrap_or(0) as u8;
            let wan = |off: i64, delay: i64, dt: i64| m(w, off, delay, dt).with_root(5 * MS, MS);
            let follow: Vec<Ev> = vec![
                m(l, 0, 1, quarter),
                m(l, US, 1, DT_MS),
                m(l, -2 * US, 2 * US, S),
                m(l, 0, 10 * US, quarter),
                m(l, S, 1, S),
                wan(100 * US, 10 * MS, quarter),
                wan(-150 * US, 11 * MS, S),
                wan(0, 10 * MS, DT_BIG),
                Ev::Run {
                    classes: classes.to_string(),
                    rounds: 4,
                    seed: c01::RUN_SEED ^ 0x9E37_79B9_7F4A_7C15,
                    dt: quarter,
                    late: false,
                },
                Ev::Run {
                    classes: classes.to_string(),
                    rounds: 8,
                    seed: c01::RUN_SEED.rotate_left(17),
                    dt: S,
                    late: true,
                },
                Ev::Tick,
                Ev::Usable { src: l, on: false },
                Ev::Usable { src: w, on: false },
            ];
            let lates: &[bool] = if quick { &[false] } else { &[false, true] };
            for order in 0..c01::order_count(n) {
                for &late in lates {
                    let cfg = Cfg {
                        sources: vec![c01::SrcKind::Two; n],
                        order,
                        ..Cfg::default()
                    };
                    let mut prefix: Vec<Ev> = (0..n as u8)
                        .map(|s| Ev::Usable { src: s, on: true })
                        .collect();
                    prefix.push(Ev::Run {
                        classes: classes.to_string(),
                        rounds: run_rounds,
                        seed: c01::RUN_SEED,
                        dt: quarter,
                        late,
                    });
                    specs.push(Spec {
                        rank: 0,
                        name: format!(
                            "long-run/{classes}/order {:?}/late={late}",
                            c01::order_permutation(order, n)
                        ),
                        cfg,
                        prefix,
                        alphabet: follow.clone(),
                        depth: d_run,
                    });
                    n_run_specs += 1;
                }
            }
        }
    }
    ctx.set("long_run_explorations", n_run_specs);
    ctx.note(
        "alphabet_periodic",
        &periodic
            .iter()
            .map(|e| e.encode())
            .collect::<Vec<_>>()
            .join(" "),
    );
    ctx.set("explorations", specs.len() as u64);
    let complete = run_specs::<M06, _>(&ctx, &specs, &judge06);
    ctx.exhaustive(complete);
    ctx.finish();
}
