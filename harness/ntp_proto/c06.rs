//! C06: not implemented yet.
