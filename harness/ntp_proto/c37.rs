//! C37: not implemented yet.
