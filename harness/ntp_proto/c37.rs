//! C37 — Only registered, usable sources influence the clock.
//!
//! Engine E-SCHED: a controlled scheduler drives the REAL generic
//! `TimeSyncControllerWrapper<_>` (ntp-proto/src/algorithm/mod.rs). The harness is the
//! only executor: source "threads" are scripts of wrapper calls
//! (`handle_measurement`, `set_usable(true/false)`, drop, late `add_source`), the
//! controller's `run()` future is polled by hand with a no-op waker (hook H5 makes every
//! loop iteration yield once, so one poll == at most one message / one timer expiry), and
//! virtual time moves only through `tokio::time::advance`. A stateless depth-first search
//! enumerates EVERY maximal schedule of a case (no sampling, no preemption bound): every
//! interleaving of the scripts' operations with every placement of the loop's steps and
//! of the timer expiry; where the timer has expired while messages are queued both
//! outcomes of tokio's randomised `select!` are explored (the wanted branch is obtained
//! by re-executing the schedule until the coin falls that way).
//!
//! Two controllers sit under the wrapper, both behind the transparent recording proxy
//! `Rec<T>` (harness code; logs every `InternalTimeSyncController` call, every steering
//! fan-out and tags every produced measurement message with its production index):
//!   * `Stub`   – a trivial reference controller (exact observation of the delivery order);
//!   * the real `KalmanClockController<MockClock>` (recording mock clock).
//!
//! Oracle (written from the statement; the linear order is the harness's own record of
//! the order in which it issued the operations — operations are atomic here, so that is
//! the only linearisation that respects real time):
//!   * every call the controller receives is the oldest issued-but-undelivered operation
//!     (=> per-source FIFO, measurements in production order, exactly once, and no source
//!     overtaking a report another source completed earlier);
//!   * nothing is delivered for an id after its `remove_source`;
//!   * at quiescence every issued operation has been delivered;
//!   * every `used_sources` the controller reports (message- or timer-driven) is a subset
//!     of {registered and not yet removed, last reported usable == true} evaluated on the
//!     issued order up to the operation being processed;
//!   * stale data for a removed id (last message of that id + `source_update(id,true)`),
//!     applied to a clone of the real controller right after each removal, changes
//!     nothing (Debug image identical, no clock call, empty update);
//!   * auxiliary (subject integrity, beyond the literal statement): a steering message is
//!     fanned out exactly once to every live source controller, and
//!     `synchronization_state().1` mirrors the last reported used set.
use std::cell::{Cell, RefCell};
use std::collections::{BTreeMap, BTreeSet, HashSet};
use std::future::Future;
use std::marker::PhantomData;
use std::task::{Context, Waker};
use std::time::Duration;

use super::common::{self, Ctx};
use crate::algorithm::verif_probe as h5;
use crate::algorithm::{
    AlgorithmConfig, InternalMeasurement, InternalSourceController, InternalStateUpdate,
    InternalTimeSyncController, KalmanClockController, Measurement, ObservableSourceTimedata,
    SourceController, TimeSyncController, TimeSyncControllerWrapper,
};
use crate::clock::NtpClock;
use crate::config::{SourceConfig, SynchronizationConfig};
use crate::time_types::{NtpDuration, NtpTimestamp};
use crate::{ClockId, NtpLeapIndicator, PollInterval};

// ---------------------------------------------------------------------------------
// alphabet
// ---------------------------------------------------------------------------------

#[derive(Clone, Copy, PartialEq, Eq, Debug, Hash, PartialOrd, Ord)]
enum Op {
    /// late registration (`add_source` / `add_one_way_source` while `run()` is live)
    R,
    /// one measurement (two-way: outgoing + incoming packet pair)
    M,
    /// `set_usable(true)`
    Up,
    /// `set_usable(false)`
    Un,
    /// drop the source controller wrapper
    D,
}

impl Op {
    fn ch(self) -> char {
        match self {
            Op::R => 'R',
            Op::M => 'M',
            Op::Up => 'U',
            Op::Un => 'u',
            Op::D => 'D',
        }
    }
    fn from_ch(c: char) -> Option<Op> {
        Some(match c {
            'R' => Op::R,
            'M' => Op::M,
            'U' => Op::Up,
            'u' => Op::Un,
            'D' => Op::D,
            _ => return None,
        })
    }
}

#[derive(Clone, Copy, PartialEq, Eq, Debug, Hash)]
enum Choice {
    /// next operation of source script i
    Src(u8),
    /// one poll of `run()` (exactly one of message / timer is ready)
    L,
    /// one poll of `run()`, both ready, the message branch is taken
    Lm,
    /// one poll of `run()`, both ready, the timer branch is taken
    Lt,
    /// virtual time passes the single-shot timer's deadline
    T,
}

impl Choice {
    fn token(self) -> String {
        match self {
            Choice::Src(i) => ((b'a' + i) as char).to_string(),
            Choice::L => "L".into(),
            Choice::Lm => "Lm".into(),
            Choice::Lt => "Lt".into(),
            Choice::T => "T".into(),
        }
    }
    fn parse(s: &str) -> Option<Choice> {
        Some(match s {
            "L" => Choice::L,
            "Lm" => Choice::Lm,
            "Lt" => Choice::Lt,
            "T" => Choice::T,
            "a" => Choice::Src(0),
            "b" => Choice::Src(1),
            "c" => Choice::Src(2),
            _ => return None,
        })
    }
}

const KIND_STUB: u8 = 0;
const KIND_KALMAN: u8 = 1;

#[derive(Clone, Debug, Hash, PartialEq, Eq)]
struct Src {
    oneway: bool,
    script: Vec<Op>,
}

#[derive(Clone, Debug, Hash, PartialEq, Eq)]
struct Case {
    kind: u8,
    /// 0: the timer never expires inside the explored window (T is not offered; the stub
    ///    never requests one); 1: T offered, the stub requests a timer on A's first
    ///    measurement only (Kalman: whenever the real controller starts a slew);
    ///    2: T offered, the stub requests a timer on every measurement of A
    timer: u8,
    srcs: Vec<Src>,
}

impl Case {
    fn text(&self) -> String {
        let mut s = format!(
            "{}.t{}",
            if self.kind == KIND_STUB {
                "stub"
            } else {
                "kalman"
            },
            self.timer
        );
        for (i, src) in self.srcs.iter().enumerate() {
            s.push('|');
            s.push((b'A' + i as u8) as char);
            s.push(if src.oneway { '1' } else { '2' });
            s.push(':');
            for op in &src.script {
                s.push(op.ch());
            }
        }
        s
    }
    fn parse(s: &str) -> Option<Case> {
        let mut parts = s.split('|');
        let (k, t) = parts.next()?.split_once(".t")?;
        let kind = match k {
            "stub" => KIND_STUB,
            "kalman" => KIND_KALMAN,
            _ => return None,
        };
        let timer: u8 = t.parse().ok()?;
        let mut srcs = Vec::new();
        for p in parts {
            let (head, script) = p.split_once(':')?;
            let oneway = head.ends_with('1');
            let script = script
                .chars()
                .map(Op::from_ch)
                .collect::<Option<Vec<_>>>()?;
            srcs.push(Src { oneway, script });
        }
        Some(Case { kind, timer, srcs })
    }
}

fn id_of(src: usize) -> u64 {
    11 + src as u64
}

// ---------------------------------------------------------------------------------
// thread-local trace of one execution
// ---------------------------------------------------------------------------------

#[derive(Clone, Debug, PartialEq, Eq, Hash)]
enum Ev {
    // --- harness markers
    Step(Choice),
    Drain,
    Issue {
        src: u8,
        op: Op,
    },
    Mirror {
        used: Vec<u64>,
    },
    // --- observed at the InternalTimeSyncController / InternalSourceController seam
    Add {
        id: u64,
        oneway: bool,
    },
    Produced {
        id: u64,
        tag: u32,
    },
    Msg {
        id: u64,
        tag: u32,
        call: u32,
        used: Option<Vec<u64>>,
        steer: bool,
        next_ms: Option<u64>,
    },
    Usable {
        id: u64,
        usable: bool,
    },
    Remove {
        id: u64,
    },
    Timer {
        call: u32,
        used: Option<Vec<u64>>,
        steer: bool,
        next_ms: Option<u64>,
    },
    Fan {
        src: u64,
        call: u32,
    },
    // kind: 1 set_frequency 2 step_clock 3 disable_ntp_algorithm 4 error_estimate 5 status
    Clock {
        kind: u8,
        a: u64,
        b: u64,
    },
    Stale {
        id: u64,
        what: String,
    },
}

thread_local! {
    static LOG: RefCell<Vec<Ev>> = const { RefCell::new(Vec::new()) };
    static SHADOW: Cell<bool> = const { Cell::new(false) };
    static SHADOW_CALLS: Cell<u32> = const { Cell::new(0) };
    static NOW: Cell<u64> = const { Cell::new(0) };
    static CALLS: Cell<u32> = const { Cell::new(0) };
}

fn log(ev: Ev) {
    if SHADOW.with(Cell::get) {
        if matches!(ev, Ev::Clock { .. }) {
            SHADOW_CALLS.with(|c| c.set(c.get() + 1));
        }
        return;
    }
    LOG.with(|l| l.borrow_mut().push(ev));
}

fn log_len() -> usize {
    LOG.with(|l| l.borrow().len())
}

fn next_call() -> u32 {
    CALLS.with(|c| {
        let v = c.get();
        c.set(v + 1);
        v
    })
}

fn reset_thread_state() {
    LOG.with(|l| l.borrow_mut().clear());
    SHADOW.with(|s| s.set(false));
    SHADOW_CALLS.with(|s| s.set(0));
    CALLS.with(|s| s.set(0));
    NOW.with(|n| n.set(1000u64 << 32));
}

// ---------------------------------------------------------------------------------
// recording mock clock
// ---------------------------------------------------------------------------------

#[derive(Debug, Clone)]
struct MockClock;

fn clock_now() -> NtpTimestamp {
    NtpTimestamp::from_fixed_int(NOW.with(Cell::get))
}

impl NtpClock for MockClock {
    type Error = std::io::Error;

    fn now(&self) -> Result<NtpTimestamp, Self::Error> {
        Ok(clock_now())
    }
    fn set_frequency(&self, freq: f64) -> Result<NtpTimestamp, Self::Error> {
        log(Ev::Clock {
            kind: 1,
            a: freq.to_bits(),
            b: 0,
        });
        Ok(clock_now())
    }
    fn get_frequency(&self) -> Result<f64, Self::Error> {
        Ok(0.0)
    }
    fn step_clock(&self, offset: NtpDuration) -> Result<NtpTimestamp, Self::Error> {
        log(Ev::Clock {
            kind: 2,
            a: offset.to_seconds().to_bits(),
            b: 0,
        });
        Ok(clock_now())
    }
    fn disable_ntp_algorithm(&self) -> Result<(), Self::Error> {
        log(Ev::Clock {
            kind: 3,
            a: 0,
            b: 0,
        });
        Ok(())
    }
    fn error_estimate_update(
        &self,
        est_error: NtpDuration,
        max_error: NtpDuration,
    ) -> Result<(), Self::Error> {
        log(Ev::Clock {
            kind: 4,
            a: est_error.to_seconds().to_bits(),
            b: max_error.to_seconds().to_bits(),
        });
        Ok(())
    }
    fn status_update(&self, leap_status: NtpLeapIndicator) -> Result<(), Self::Error> {
        log(Ev::Clock {
            kind: 5,
            a: leap_status as u64,
            b: 0,
        });
        Ok(())
    }
}

// ---------------------------------------------------------------------------------
// transparent recording proxy between the wrapper under test and a controller
// ---------------------------------------------------------------------------------

#[derive(Debug, Clone)]
struct Tagged<X> {
    tag: u32,
    inner: X,
}

/// "what happens if data for a removed id still arrives" – evaluated on a copy.
trait Twin: InternalTimeSyncController {
    fn stale_probe(&self, id: ClockId, stale: Option<Self::SourceMessage>) -> Option<String>;
}

struct Rec<T: InternalTimeSyncController> {
    inner: T,
    last: Vec<(u64, T::SourceMessage)>,
}

struct RecSrc<S> {
    id: u64,
    produced: u32,
    inner: S,
}

fn ids(v: &Option<Vec<ClockId>>) -> Option<Vec<u64>> {
    v.as_ref().map(|v| {
        let mut o: Vec<u64> = v.iter().map(|c| c.0).collect();
        o.sort_unstable();
        o
    })
}

impl<S: InternalSourceController> InternalSourceController for RecSrc<S> {
    type ControllerMessage = Tagged<S::ControllerMessage>;
    type SourceMessage = Tagged<S::SourceMessage>;
    type MeasurementDelay = S::MeasurementDelay;

    fn handle_message(&mut self, message: Self::ControllerMessage) {
        log(Ev::Fan {
            src: self.id,
            call: message.tag,
        });
        self.inner.handle_message(message.inner);
    }

    fn handle_measurement(
        &mut self,
        measurement: InternalMeasurement<Self::MeasurementDelay>,
    ) -> Option<Self::SourceMessage> {
        let inner = self.inner.handle_measurement(measurement)?;
        let tag = self.produced;
        self.produced += 1;
        log(Ev::Produced { id: self.id, tag });
        Some(Tagged { tag, inner })
    }

    fn desired_poll_interval(&self) -> PollInterval {
        self.inner.desired_poll_interval()
    }

    fn observe(&self) -> ObservableSourceTimedata {
        self.inner.observe()
    }
}

impl<T> Rec<T>
where
    T: InternalTimeSyncController,
{
    fn wrap_update(
        call: u32,
        upd: InternalStateUpdate<T::ControllerMessage>,
    ) -> InternalStateUpdate<Tagged<T::ControllerMessage>> {
        InternalStateUpdate {
            source_message: upd.source_message.map(|inner| Tagged { tag: call, inner }),
            time_snapshot: upd.time_snapshot,
            used_sources: upd.used_sources,
            next_update: upd.next_update,
        }
    }
}

impl<T> InternalTimeSyncController for Rec<T>
where
    T: InternalTimeSyncController<Clock = MockClock> + Twin,
{
    type Clock = MockClock;
    type AlgorithmConfig = T::AlgorithmConfig;
    type ControllerMessage = Tagged<T::ControllerMessage>;
    type SourceMessage = Tagged<T::SourceMessage>;
    type NtpSourceController = RecSrc<T::NtpSourceController>;
    type OneWaySourceController = RecSrc<T::OneWaySourceController>;

    fn new(
        clock: MockClock,
        synchronization_config: SynchronizationConfig,
        algorithm_config: Self::AlgorithmConfig,
    ) -> Result<Self, std::io::Error> {
        Ok(Rec {
            inner: T::new(clock, synchronization_config, algorithm_config)?,
            last: Vec::new(),
        })
    }

    fn take_control(&mut self) -> Result<(), std::io::Error> {
        self.inner.take_control()
    }

    fn add_source(
        &mut self,
        id: ClockId,
        source_config: SourceConfig,
    ) -> Self::NtpSourceController {
        log(Ev::Add {
            id: id.0,
            oneway: false,
        });
        RecSrc {
            id: id.0,
            produced: 0,
            inner: self.inner.add_source(id, source_config),
        }
    }

    fn add_one_way_source(
        &mut self,
        id: ClockId,
        source_config: SourceConfig,
        measurement_noise_estimate: f64,
        measurement_accuracy_estimate: f64,
        period: Option<f64>,
    ) -> Self::OneWaySourceController {
        log(Ev::Add {
            id: id.0,
            oneway: true,
        });
        RecSrc {
            id: id.0,
            produced: 0,
            inner: self.inner.add_one_way_source(
                id,
                source_config,
                measurement_noise_estimate,
                measurement_accuracy_estimate,
                period,
            ),
        }
    }

    fn remove_source(&mut self, id: ClockId) {
        log(Ev::Remove { id: id.0 });
        self.inner.remove_source(id);
        let stale = self
            .last
            .iter()
            .rev()
            .find(|(i, _)| *i == id.0)
            .map(|(_, m)| m.clone());
        if let Some(what) = self.inner.stale_probe(id, stale) {
            log(Ev::Stale { id: id.0, what });
        }
    }

    fn source_update(&mut self, id: ClockId, usable: bool) {
        log(Ev::Usable { id: id.0, usable });
        self.inner.source_update(id, usable);
    }

    fn source_message(
        &mut self,
        id: ClockId,
        message: Self::SourceMessage,
    ) -> InternalStateUpdate<Self::ControllerMessage> {
        let call = next_call();
        if let Some(e) = self.last.iter_mut().find(|(i, _)| *i == id.0) {
            e.1 = message.inner.clone();
        } else {
            self.last.push((id.0, message.inner.clone()));
        }
        let upd = self.inner.source_message(id, message.inner);
        log(Ev::Msg {
            id: id.0,
            tag: message.tag,
            call,
            used: ids(&upd.used_sources),
            steer: upd.source_message.is_some(),
            next_ms: upd.next_update.map(|d| d.as_millis() as u64),
        });
        Self::wrap_update(call, upd)
    }

    fn time_update(&mut self) -> InternalStateUpdate<Self::ControllerMessage> {
        let call = next_call();
        let upd = self.inner.time_update();
        log(Ev::Timer {
            call,
            used: ids(&upd.used_sources),
            steer: upd.source_message.is_some(),
            next_ms: upd.next_update.map(|d| d.as_millis() as u64),
        });
        Self::wrap_update(call, upd)
    }
}

// ---------------------------------------------------------------------------------
// stub controller: the simplest correct controller (keeps the flags it was told)
// ---------------------------------------------------------------------------------

struct Stub {
    regs: BTreeMap<u64, bool>,
    /// number of measurement messages handled; published as `root_delay` of the snapshot
    n: i64,
}

struct StubSrc<D>(PhantomData<D>);

impl<D: std::fmt::Debug + Copy + Clone + Send + 'static> InternalSourceController for StubSrc<D> {
    type ControllerMessage = u8;
    type SourceMessage = i8;
    type MeasurementDelay = D;

    fn handle_message(&mut self, _message: u8) {}
    fn handle_measurement(&mut self, measurement: InternalMeasurement<D>) -> Option<i8> {
        // the harness smuggles the stub's answer policy in `precision`:
        // bit0 = answer with a steering message, bit1 = request a timer
        Some(measurement.precision)
    }
    fn desired_poll_interval(&self) -> PollInterval {
        PollInterval::default()
    }
    fn observe(&self) -> ObservableSourceTimedata {
        ObservableSourceTimedata::default()
    }
}

impl InternalTimeSyncController for Stub {
    type Clock = MockClock;
    type AlgorithmConfig = AlgorithmConfig;
    type ControllerMessage = u8;
    type SourceMessage = i8;
    type NtpSourceController = StubSrc<NtpDuration>;
    type OneWaySourceController = StubSrc<()>;

    fn new(
        _c: MockClock,
        _s: SynchronizationConfig,
        _a: AlgorithmConfig,
    ) -> Result<Self, std::io::Error> {
        Ok(Stub {
            regs: BTreeMap::new(),
            n: 0,
        })
    }
    fn take_control(&mut self) -> Result<(), std::io::Error> {
        Ok(())
    }
    fn add_source(&mut self, id: ClockId, _c: SourceConfig) -> StubSrc<NtpDuration> {
        self.regs.insert(id.0, false);
        StubSrc(PhantomData)
    }
    fn add_one_way_source(
        &mut self,
        id: ClockId,
        _c: SourceConfig,
        _n: f64,
        _a: f64,
        _p: Option<f64>,
    ) -> StubSrc<()> {
        self.regs.insert(id.0, false);
        StubSrc(PhantomData)
    }
    fn remove_source(&mut self, id: ClockId) {
        self.regs.remove(&id.0);
    }
    fn source_update(&mut self, id: ClockId, usable: bool) {
        if let Some(e) = self.regs.get_mut(&id.0) {
            *e = usable;
        }
    }
    fn source_message(&mut self, _id: ClockId, flags: i8) -> InternalStateUpdate<u8> {
        self.n += 1;
        InternalStateUpdate {
            source_message: (flags & 1 != 0).then_some(1),
            time_snapshot: Some(crate::system::TimeSnapshot {
                root_delay: NtpDuration::from_fixed_int(self.n),
                ..crate::system::TimeSnapshot::default()
            }),
            used_sources: Some(
                self.regs
                    .iter()
                    .filter(|(_, u)| **u)
                    .map(|(i, _)| ClockId(*i))
                    .collect(),
            ),
            next_update: (flags & 2 != 0).then_some(Duration::from_secs(1)),
        }
    }
    fn time_update(&mut self) -> InternalStateUpdate<u8> {
        InternalStateUpdate {
            source_message: Some(2),
            ..InternalStateUpdate::default()
        }
    }
}

impl Twin for Stub {
    fn stale_probe(&self, _id: ClockId, _stale: Option<i8>) -> Option<String> {
        None
    }
}

impl Twin for KalmanClockController<MockClock> {
    fn stale_probe(&self, id: ClockId, stale: Option<Self::SourceMessage>) -> Option<String> {
        SHADOW_CALLS.with(|c| c.set(0));
        SHADOW.with(|s| s.set(true));
        let mut twin = self.clone();
        let before = format!("{twin:?}");
        twin.source_update(id, true);
        let mut produced = false;
        if let Some(m) = stale {
            let u = twin.source_message(id, m);
            produced = u.source_message.is_some()
                || u.used_sources.is_some()
                || u.next_update.is_some()
                || u.time_snapshot.is_some();
        }
        let after = format!("{twin:?}");
        SHADOW.with(|s| s.set(false));
        let calls = SHADOW_CALLS.with(Cell::get);
        if before != after {
            Some("controller state changed".to_string())
        } else if produced {
            Some("a state update was produced".to_string())
        } else if calls != 0 {
            Some(format!("{calls} clock call(s)"))
        } else {
            None
        }
    }
}

// ---------------------------------------------------------------------------------
// executor
// ---------------------------------------------------------------------------------

type Wrapper<T> = TimeSyncControllerWrapper<Rec<T>>;

enum Handle<T>
where
    T: InternalTimeSyncController<Clock = MockClock> + Twin,
{
    Two(<Wrapper<T> as TimeSyncController>::NtpSourceController),
    One(<Wrapper<T> as TimeSyncController>::OneWaySourceController),
}

trait Driver {
    /// pick the index of one of `enabled` at decision `depth`; `None` = stop scheduling
    /// here and let the loop run to quiescence (replay of a non-maximal trace)
    fn pick(&mut self, depth: usize, enabled: &[Choice]) -> Result<Option<usize>, String>;
}

enum Abort {
    /// tokio's select! coin fell on the other branch at this step: run the same schedule again
    Retry(usize),
    /// the driver could not follow its prescribed schedule here
    Driver(String),
    Machinery(String),
}

fn base_measurement(id: ClockId) -> Measurement {
    Measurement {
        sender_id: id,
        receiver_id: ClockId::SYSTEM,
        sender_ts: NtpTimestamp::default(),
        receiver_ts: NtpTimestamp::default(),
        root_delay: NtpDuration::from_seconds(0.0),
        root_dispersion: NtpDuration::from_seconds(0.0),
        leap: NtpLeapIndicator::NoWarning,
        precision: 0,
    }
}

/// (offset seconds, round trip seconds, precision byte) of the measurements of source `src`
fn measurement_params(case: &Case, src: usize, nth: usize) -> (f64, f64, i8) {
    let kind = case.kind;
    if kind == KIND_STUB {
        // precision carries the stub's answer policy: A steers (+ requests the timer as
        // the case's timer policy says), B answers silently, C steers only
        let timer = match case.timer {
            0 => false,
            1 => nth == 0,
            _ => true,
        };
        (0.0, 1e-3, [if timer { 3i8 } else { 1 }, 0, 1][src % 3])
    } else {
        // A and C: 5 ms off with a tight round trip => the real controller starts a slew
        // (set_frequency, FreqChange fan-out, next_update timer); B (one way): 1 ms off
        ([5.0e-3, 1.0e-3, 5.2e-3][src % 3], 1e-6, 0)
    }
}

fn do_measure<T>(h: &mut Handle<T>, case: &Case, src: usize, nth: usize)
where
    T: InternalTimeSyncController<Clock = MockClock> + Twin,
{
    // the local clock advances 1/64 s per measurement (in issue order): close enough that
    // initial-phase snapshots (frequency variance 100) of several sources stay selectable together
    let now = NOW.with(|n| {
        let v = n.get() + (1u64 << 26);
        n.set(v);
        v
    });
    let t4 = NtpTimestamp::from_fixed_int(now);
    let (off, rtt, precision) = measurement_params(case, src, nth);
    let id = ClockId(id_of(src));
    match h {
        Handle::Two(w) => {
            let t1 = t4 + NtpDuration::from_seconds(-rtt);
            let t2 = t1 + NtpDuration::from_seconds(rtt / 2.0 + off);
            let t3 = t2;
            let mut out = base_measurement(id);
            out.sender_id = ClockId::SYSTEM;
            out.receiver_id = id;
            out.sender_ts = t1;
            out.receiver_ts = t2;
            out.precision = precision;
            w.handle_measurement(out);
            let mut inc = base_measurement(id);
            inc.sender_ts = t3;
            inc.receiver_ts = t4;
            inc.precision = precision;
            w.handle_measurement(inc);
        }
        Handle::One(w) => {
            let mut m = base_measurement(id);
            m.sender_ts = t4 + NtpDuration::from_seconds(off);
            m.receiver_ts = t4;
            m.precision = precision;
            w.handle_measurement(m);
        }
    }
}

fn register<T>(ctrl: &Wrapper<T>, case: &Case, i: usize) -> Handle<T>
where
    T: InternalTimeSyncController<Clock = MockClock> + Twin,
{
    let id = ClockId(id_of(i));
    if case.srcs[i].oneway {
        Handle::One(ctrl.add_one_way_source(id, SourceConfig::default(), 1e-6, 1e-6, None))
    } else {
        Handle::Two(ctrl.add_source(id, SourceConfig::default()))
    }
}

fn algo_config(kind: u8) -> AlgorithmConfig {
    if kind == KIND_KALMAN {
        // a one-way source's initial snapshot has a 1 s^2 variance; let it take part in
        // the selection without an 8-sample warm-up
        AlgorithmConfig {
            maximum_source_uncertainty: 10.0,
            ..AlgorithmConfig::default()
        }
    } else {
        AlgorithmConfig::default()
    }
}

fn sync_config() -> SynchronizationConfig {
    SynchronizationConfig {
        minimum_agreeing_sources: 1,
        ..SynchronizationConfig::default()
    }
}

/// What one poll of `run()` did, read off the trace.
struct PollScan {
    deliveries: i32,
    timers: u32,
    first_is_timer: Option<bool>,
}

struct SchedState {
    q: i32,
    armed: bool,
    expired: bool,
    stalled: bool,
    deadline: tokio::time::Instant,
}

fn scan_poll(from: usize, st: &mut SchedState, now: tokio::time::Instant) -> PollScan {
    LOG.with(|l| {
        let l = l.borrow();
        let mut r = PollScan {
            deliveries: 0,
            timers: 0,
            first_is_timer: None,
        };
        for ev in &l[from..] {
            match ev {
                Ev::Msg { next_ms, .. } => {
                    r.deliveries += 1;
                    r.first_is_timer.get_or_insert(false);
                    if let Some(ms) = next_ms {
                        st.armed = true;
                        st.expired = false;
                        st.deadline = now + Duration::from_millis(*ms);
                    }
                }
                Ev::Usable { .. } | Ev::Remove { .. } => {
                    r.deliveries += 1;
                    r.first_is_timer.get_or_insert(false);
                }
                Ev::Timer { next_ms, .. } => {
                    r.timers += 1;
                    r.first_is_timer.get_or_insert(true);
                    st.armed = false;
                    st.expired = false;
                    if let Some(ms) = next_ms {
                        st.armed = true;
                        st.deadline = now + Duration::from_millis(*ms);
                    }
                }
                _ => {}
            }
        }
        r
    })
}

async fn run_once<T>(case: &Case, drv: &mut dyn Driver) -> Result<(), Abort>
where
    T: InternalTimeSyncController<Clock = MockClock, AlgorithmConfig = AlgorithmConfig> + Twin,
{
    let n = case.srcs.len();
    let ctrl: Wrapper<T> =
        <Wrapper<T> as TimeSyncController>::new(MockClock, sync_config(), algo_config(case.kind))
            .map_err(|e| Abort::Machinery(format!("new: {e}")))?;
    ctrl.take_control()
        .map_err(|e| Abort::Machinery(format!("take_control: {e}")))?;
    let mut handles: Vec<Option<Handle<T>>> = Vec::with_capacity(n);
    let mut pc = vec![0usize; n];
    let mut mcount = vec![0usize; n];
    for i in 0..n {
        if case.srcs[i].script.first() == Some(&Op::R) {
            handles.push(None);
        } else {
            handles.push(Some(register(&ctrl, case, i)));
        }
    }
    h5::reset_iterations();
    h5::arm(true);
    let mut run = std::pin::pin!(tokio::task::unconstrained(ctrl.run()));
    let mut cx = Context::from_waker(Waker::noop());
    if run.as_mut().poll(&mut cx).is_ready() {
        return Err(Abort::Machinery("run() returned".into()));
    }
    let mut st = SchedState {
        q: 0,
        armed: false,
        expired: false,
        stalled: false,
        deadline: tokio::time::Instant::now(),
    };
    let mut enabled: Vec<Choice> = Vec::with_capacity(8);
    let mut depth = 0usize;
    loop {
        enabled.clear();
        for i in 0..n {
            if pc[i] < case.srcs[i].script.len() {
                enabled.push(Choice::Src(i as u8));
            }
        }
        if (st.q > 0 || st.expired) && !st.stalled {
            if st.q > 0 && st.expired {
                enabled.push(Choice::Lm);
                enabled.push(Choice::Lt);
            } else {
                enabled.push(Choice::L);
            }
        }
        if case.timer != 0 && st.armed && !st.expired {
            enabled.push(Choice::T);
        }
        if enabled.is_empty() {
            break;
        }
        let Some(k) = drv.pick(depth, &enabled).map_err(Abort::Driver)? else {
            break;
        };
        let c = enabled[k];
        depth += 1;
        log(Ev::Step(c));
        match c {
            Choice::Src(i) => {
                let i = i as usize;
                let op = case.srcs[i].script[pc[i]];
                pc[i] += 1;
                log(Ev::Issue { src: i as u8, op });
                let from = log_len();
                match op {
                    Op::R => handles[i] = Some(register(&ctrl, case, i)),
                    Op::M => {
                        if let Some(h) = handles[i].as_mut() {
                            do_measure(h, case, i, mcount[i]);
                            mcount[i] += 1;
                        }
                    }
                    Op::Up | Op::Un => match handles[i].as_mut() {
                        Some(Handle::Two(w)) => w.set_usable(op == Op::Up),
                        Some(Handle::One(w)) => w.set_usable(op == Op::Up),
                        None => {}
                    },
                    Op::D => handles[i] = None,
                }
                let sent = match op {
                    Op::R => 0,
                    Op::M => LOG.with(|l| {
                        l.borrow()[from..]
                            .iter()
                            .filter(|e| matches!(e, Ev::Produced { .. }))
                            .count() as i32
                    }),
                    _ => 1,
                };
                if sent > 0 {
                    st.q += sent;
                    st.stalled = false;
                }
            }
            Choice::T => {
                let now = tokio::time::Instant::now();
                let d = st.deadline.saturating_duration_since(now) + Duration::from_millis(1);
                tokio::time::advance(d).await;
                st.expired = true;
                st.stalled = false;
            }
            Choice::L | Choice::Lm | Choice::Lt => {
                let from = log_len();
                let now = tokio::time::Instant::now();
                if run.as_mut().poll(&mut cx).is_ready() {
                    return Err(Abort::Machinery("run() returned".into()));
                }
                let scan = scan_poll(from, &mut st, now);
                st.q -= scan.deliveries;
                match (c, scan.first_is_timer) {
                    (Choice::Lt, Some(false)) | (Choice::Lm, Some(true)) => {
                        return Err(Abort::Retry(depth));
                    }
                    _ => {}
                }
                if scan.deliveries == 0 && scan.timers == 0 {
                    st.stalled = true;
                }
                let mut used: Vec<u64> =
                    ctrl.synchronization_state().1.iter().map(|c| c.0).collect();
                used.sort_unstable();
                log(Ev::Mirror { used });
            }
        }
    }
    // drain: nothing may be left behind once every script has finished
    let mut idle = 0;
    let mut guard = 0;
    while idle < 2 && guard < 64 {
        log(Ev::Drain);
        let from = log_len();
        let now = tokio::time::Instant::now();
        if run.as_mut().poll(&mut cx).is_ready() {
            return Err(Abort::Machinery("run() returned".into()));
        }
        let scan = scan_poll(from, &mut st, now);
        if scan.deliveries == 0 && scan.timers == 0 {
            idle += 1;
        } else {
            idle = 0;
        }
        guard += 1;
    }
    h5::arm(false);
    Ok(())
}

struct Exec {
    log: Vec<Ev>,
    retries: u32,
    /// Some => the schedule could not be executed as prescribed / machinery trouble
    error: Option<String>,
    /// Some => code under test panicked
    panic: Option<String>,
    steps: usize,
}

fn execute(rt: &tokio::runtime::Runtime, case: &Case, drv: &mut dyn Driver) -> Exec {
    let mut retries = 0u32;
    let mut fail_depth = 0usize;
    let mut fail_count = 0u32;
    loop {
        reset_thread_state();
        let r = common::catch(|| {
            rt.block_on(async {
                if case.kind == KIND_STUB {
                    run_once::<Stub>(case, drv).await
                } else {
                    run_once::<KalmanClockController<MockClock>>(case, drv).await
                }
            })
        });
        h5::arm(false);
        SHADOW.with(|s| s.set(false));
        let log = LOG.with(|l| std::mem::take(&mut *l.borrow_mut()));
        let steps = log.iter().filter(|e| matches!(e, Ev::Step(_))).count();
        match r {
            Ok(Ok(())) => {
                return Exec {
                    log,
                    retries,
                    error: None,
                    panic: None,
                    steps,
                };
            }
            Ok(Err(Abort::Retry(d))) => {
                retries += 1;
                // a coin that can fall both ways fails 64 times in a row at the same step
                // with probability 2^-64; reaching a deeper step resets the count
                if d > fail_depth {
                    fail_depth = d;
                    fail_count = 1;
                } else if d == fail_depth {
                    fail_count += 1;
                }
                if fail_count > 64 || retries > 1_000_000 {
                    return Exec {
                        log,
                        retries,
                        error: Some(format!("select! branch never taken at step {d}")),
                        panic: None,
                        steps,
                    };
                }
            }
            Ok(Err(Abort::Driver(e))) => {
                return Exec {
                    log,
                    retries,
                    error: Some(format!("driver: {e}")),
                    panic: None,
                    steps,
                };
            }
            Ok(Err(Abort::Machinery(e))) => {
                return Exec {
                    log,
                    retries,
                    error: Some(format!("machinery: {e}")),
                    panic: None,
                    steps,
                };
            }
            Err(p) => {
                return Exec {
                    log,
                    retries,
                    error: None,
                    panic: Some(p),
                    steps,
                };
            }
        }
    }
}

fn new_runtime() -> tokio::runtime::Runtime {
    tokio::runtime::Builder::new_current_thread()
        .enable_time()
        .start_paused(true)
        .build()
        .expect("runtime")
}

// ---------------------------------------------------------------------------------
// oracle
// ---------------------------------------------------------------------------------

#[derive(Clone, Copy, PartialEq, Eq, Debug)]
enum Item {
    M(u64, u32),
    U(u64, bool),
    D(u64),
}

impl Item {
    fn id(self) -> u64 {
        match self {
            Item::M(i, _) | Item::U(i, _) | Item::D(i) => i,
        }
    }
}

#[derive(Default)]
struct Verdict {
    violations: Vec<(&'static str, String)>,
    deliveries: u64,
    updates_with_used: u64,
    used_hist: [u64; 4],
    filter_mattered: u64,
    fanouts: u64,
    timers: u64,
    both_ready: u64,
    removes: u64,
    clock_calls: u64,
    late_fan: u64,
}

impl Verdict {
    fn v(&mut self, class: &'static str, what: String) {
        if !self.violations.iter().any(|(c, _)| *c == class) {
            self.violations.push((class, what));
        }
    }
}

fn judge(case: &Case, log: &[Ev]) -> Verdict {
    let mut v = Verdict::default();
    let mut pending: Vec<Item> = Vec::new();
    let mut skipped: Vec<Item> = Vec::new();
    // linear-order model (fold of the issued operations up to the one being processed)
    let mut lin_reg: BTreeSet<u64> = BTreeSet::new();
    let mut lin_usable: BTreeMap<u64, bool> = BTreeMap::new();
    // real time: source controller wrappers that exist
    let mut live: BTreeSet<u64> = BTreeSet::new();
    let mut has_data: BTreeSet<u64> = BTreeSet::new();
    let mut removed_delivered: BTreeSet<u64> = BTreeSet::new();
    let mut last_used: Vec<u64> = Vec::new();
    let late: BTreeSet<u64> = case
        .srcs
        .iter()
        .enumerate()
        .filter(|(_, s)| s.script.first() == Some(&Op::R))
        .map(|(i, _)| id_of(i))
        .collect();
    // expected fan-out of the most recent steering message
    let mut fan_expect: Option<(u32, BTreeSet<u64>, Vec<u64>)> = None;

    fn apply(it: Item, lin_reg: &mut BTreeSet<u64>, lin_usable: &mut BTreeMap<u64, bool>) {
        match it {
            Item::M(..) => {}
            Item::U(i, b) => {
                if lin_reg.contains(&i) {
                    lin_usable.insert(i, b);
                }
            }
            Item::D(i) => {
                lin_reg.remove(&i);
                lin_usable.remove(&i);
            }
        }
    }

    let close_fan = |fan_expect: &mut Option<(u32, BTreeSet<u64>, Vec<u64>)>, v: &mut Verdict| {
        if let Some((call, want, got)) = fan_expect.take() {
            let mut g = got.clone();
            g.sort_unstable();
            let w: Vec<u64> = want.iter().copied().collect();
            if g != w {
                v.v(
                    "C37:steer-fanout",
                    format!("steering message of controller call #{call} reached source controllers {g:?}, live source controllers were {w:?}"),
                );
            }
        }
    };

    for ev in log {
        if !matches!(ev, Ev::Fan { .. } | Ev::Clock { .. }) {
            close_fan(&mut fan_expect, &mut v);
        }
        match ev {
            Ev::Step(c) => {
                if matches!(c, Choice::Lm | Choice::Lt) {
                    v.both_ready += 1;
                }
            }
            Ev::Drain => {}
            Ev::Add { id, .. } => {
                lin_reg.insert(*id);
                live.insert(*id);
            }
            Ev::Issue { src, op } => {
                let id = id_of(*src as usize);
                match op {
                    Op::Up => pending.push(Item::U(id, true)),
                    Op::Un => pending.push(Item::U(id, false)),
                    Op::D => {
                        pending.push(Item::D(id));
                        live.remove(&id);
                    }
                    Op::R | Op::M => {}
                }
            }
            Ev::Produced { id, tag } => pending.push(Item::M(*id, *tag)),
            Ev::Msg { .. } | Ev::Usable { .. } | Ev::Remove { .. } => {
                v.deliveries += 1;
                let it = match ev {
                    Ev::Msg { id, tag, .. } => Item::M(*id, *tag),
                    Ev::Usable { id, usable } => Item::U(*id, *usable),
                    Ev::Remove { id } => Item::D(*id),
                    _ => unreachable!(),
                };
                if removed_delivered.contains(&it.id()) {
                    v.v("C37:delivered-after-removal", format!("{it:?} reached the controller after remove_source({})", it.id()));
                }
                match pending.iter().position(|p| *p == it) {
                    Some(0) => {
                        pending.remove(0);
                        apply(it, &mut lin_reg, &mut lin_usable);
                    }
                    Some(p) => {
                        let same = pending[..p].iter().any(|q| q.id() == it.id());
                        if same {
                            v.v(
                                "C37:source-fifo",
                                format!("{it:?} reached the controller before the earlier operation(s) {:?} of the same source", &pending[..p]),
                            );
                        } else {
                            v.v(
                                "C37:global-order",
                                format!("{it:?} reached the controller before the earlier completed operation(s) {:?} of other sources", &pending[..p]),
                            );
                        }
                        let passed: Vec<Item> = pending.drain(..=p).collect();
                        for (k, q) in passed.iter().enumerate() {
                            apply(*q, &mut lin_reg, &mut lin_usable);
                            if k < p {
                                skipped.push(*q);
                            }
                        }
                    }
                    None => {
                        if let Some(p) = skipped.iter().position(|q| *q == it) {
                            skipped.remove(p); // late delivery, already reported when it was overtaken
                        } else {
                            v.v("C37:phantom-delivery", format!("{it:?} reached the controller but no such operation is outstanding (duplicate or out of band)"));
                        }
                    }
                }
                if let Ev::Remove { id } = ev {
                    removed_delivered.insert(*id);
                    v.removes += 1;
                }
                if let Ev::Msg { id, .. } = ev {
                    has_data.insert(*id);
                }
            }
            Ev::Timer { .. } => v.timers += 1,
            Ev::Fan { src, call } => match fan_expect.as_mut() {
                Some((c, _, got)) if *c == *call => {
                    got.push(*src);
                    if late.contains(src) {
                        v.late_fan += 1;
                    }
                }
                _ => v.v("C37:steer-fanout", format!("source controller {src} received a steering message of call #{call} outside that call's fan-out")),
            },
            Ev::Clock { .. } => v.clock_calls += 1,
            Ev::Stale { id, what } => v.v(
                "C37:stale-data-not-ignored",
                format!("data for source {id} delivered after remove_source({id}) was not ignored: {what}"),
            ),
            Ev::Mirror { used } => {
                if *used != last_used {
                    v.v("C37:used-mirror", format!("synchronization_state() reports used sources {used:?}, the controller last reported {last_used:?}"));
                }
            }
        }
        // used-set oracle + fan-out bookkeeping for controller answers
        let (used, steer, call, what) = match ev {
            Ev::Msg {
                used,
                steer,
                call,
                id,
                tag,
                ..
            } => (
                used,
                *steer,
                *call,
                format!("measurement #{tag} of source {id}"),
            ),
            Ev::Timer {
                used, steer, call, ..
            } => (used, *steer, *call, "timer expiry".to_string()),
            _ => continue,
        };
        if let Some(u) = used {
            v.updates_with_used += 1;
            v.used_hist[u.len().min(3)] += 1;
            last_used = u.clone();
            for x in u {
                if !lin_reg.contains(x) {
                    v.v(
                        "C37:used-unregistered",
                        format!("clock update on {what} used source {x}, which is not registered at that point of the linear order (registered: {lin_reg:?})"),
                    );
                } else if lin_usable.get(x) != Some(&true) {
                    v.v(
                        "C37:used-unusable",
                        format!("clock update on {what} used source {x}, whose last reported usability at that point is {:?}", lin_usable.get(x)),
                    );
                }
            }
            // did the registered/usable filter exclude a source that has data?
            if has_data
                .iter()
                .any(|x| !(lin_reg.contains(x) && lin_usable.get(x) == Some(&true)))
            {
                v.filter_mattered += 1;
            }
        }
        if steer {
            v.fanouts += 1;
            fan_expect = Some((call, live.clone(), Vec::new()));
        }
    }
    close_fan(&mut fan_expect, &mut v);
    if !pending.is_empty() || !skipped.is_empty() {
        let mut lost = skipped.clone();
        lost.extend(pending.iter().copied());
        v.v("C37:lost-message", format!("operation(s) {lost:?} never reached the controller although the loop ran to quiescence"));
    }
    v
}

/// Implementation-visible outcome of an execution: the sequence of controller calls with
/// their structural results. Float payloads of the real controller are left out (their
/// last bits depend on HashMap iteration order inside KalmanClockController).
fn outcome_hash(case_hash: u64, log: &[Ev]) -> u64 {
    let mut acc: Vec<u64> = vec![case_hash];
    for ev in log {
        match ev {
            Ev::Msg {
                id,
                tag,
                used,
                steer,
                next_ms,
                ..
            } => acc.push(common::hash_of(&(
                1u8,
                id,
                tag,
                used,
                steer,
                next_ms.is_some(),
            ))),
            Ev::Usable { id, usable } => acc.push(common::hash_of(&(2u8, id, usable))),
            Ev::Remove { id } => acc.push(common::hash_of(&(3u8, id))),
            Ev::Timer { used, steer, .. } => acc.push(common::hash_of(&(4u8, used, steer))),
            Ev::Fan { src, .. } => acc.push(common::hash_of(&(5u8, src))),
            Ev::Clock { kind, .. } => acc.push(common::hash_of(&(6u8, kind))),
            Ev::Add { id, .. } => acc.push(common::hash_of(&(7u8, id))),
            Ev::Produced { id, tag } => acc.push(common::hash_of(&(8u8, id, tag))),
            _ => {}
        }
    }
    common::hash_of(&acc)
}

fn render(log: &[Ev]) -> String {
    let mut s = String::new();
    for ev in log {
        let t = match ev {
            Ev::Step(c) => format!("[{}]", c.token()),
            Ev::Drain => "[drain]".into(),
            Ev::Issue { src, op } => format!("{}.{}", (b'a' + src) as char, op.ch()),
            Ev::Mirror { used } => format!("state={used:?}"),
            Ev::Add { id, oneway } => format!("add({id}{})", if *oneway { ",1w" } else { "" }),
            Ev::Produced { id, tag } => format!("send(m{tag}@{id})"),
            Ev::Msg {
                id,
                tag,
                used,
                steer,
                next_ms,
                ..
            } => {
                format!(
                    "source_message({id},m{tag})->used={used:?},steer={steer},timer={}",
                    next_ms.is_some()
                )
            }
            Ev::Usable { id, usable } => format!("source_update({id},{usable})"),
            Ev::Remove { id } => format!("remove_source({id})"),
            Ev::Timer { used, steer, .. } => format!("time_update()->used={used:?},steer={steer}"),
            Ev::Fan { src, call } => format!("steer#{call}->{src}"),
            Ev::Clock { kind, .. } => format!(
                "clock.{}",
                [
                    "?",
                    "set_frequency",
                    "step_clock",
                    "disable_ntp_algorithm",
                    "error_estimate_update",
                    "status_update"
                ][*kind as usize % 6]
            ),
            Ev::Stale { id, what } => format!("STALE({id}:{what})"),
        };
        if !s.is_empty() {
            s.push(' ');
        }
        s.push_str(&t);
    }
    s
}

// ---------------------------------------------------------------------------------
// stateless DFS over schedules
// ---------------------------------------------------------------------------------

/// upper bound on the number of simultaneously enabled choices (3 sources + Lm + Lt, or + L + T)
const SPLIT_RADIX: usize = 6;

struct Dfs {
    path: Vec<u8>,
    widths: Vec<u8>,
    fixed: usize,
    taken: Vec<Choice>,
}

impl Driver for Dfs {
    fn pick(&mut self, depth: usize, enabled: &[Choice]) -> Result<Option<usize>, String> {
        if depth < self.path.len() {
            let i = self.path[depth] as usize;
            if i >= enabled.len() {
                return Err(format!("choice {i} not enabled at depth {depth}"));
            }
            if depth < self.widths.len() {
                self.widths[depth] = enabled.len() as u8;
            } else {
                self.widths.push(enabled.len() as u8);
            }
            self.taken.truncate(depth);
            self.taken.push(enabled[i]);
            Ok(Some(i))
        } else {
            self.path.push(0);
            self.widths.truncate(depth);
            self.widths.push(enabled.len() as u8);
            self.taken.truncate(depth);
            self.taken.push(enabled[0]);
            Ok(Some(0))
        }
    }
}

impl Dfs {
    fn new(prefix: &[u8]) -> Dfs {
        Dfs {
            path: prefix.to_vec(),
            widths: Vec::new(),
            fixed: prefix.len(),
            taken: Vec::new(),
        }
    }
    /// advance to the next schedule in DFS order; returns the depth of the branching
    /// point (number of shared leading choices), or None when exhausted
    fn advance(&mut self) -> Option<usize> {
        let mut d = self.path.len().min(self.widths.len());
        self.path.truncate(d);
        while d > self.fixed {
            d -= 1;
            if self.path[d] + 1 < self.widths[d] {
                self.path[d] += 1;
                self.path.truncate(d + 1);
                self.widths.truncate(d + 1);
                return Some(d);
            }
        }
        None
    }
    fn schedule_text(&self) -> String {
        self.taken
            .iter()
            .map(|c| c.token())
            .collect::<Vec<_>>()
            .join(",")
    }
}

struct Scripted {
    choices: Vec<Choice>,
}

impl Driver for Scripted {
    fn pick(&mut self, depth: usize, enabled: &[Choice]) -> Result<Option<usize>, String> {
        let Some(want) = self.choices.get(depth) else {
            // the trace is a prefix of a maximal schedule (e.g. recorded against a variant
            // of the code that consumed messages differently): run to quiescence from here
            return Ok(None);
        };
        enabled
            .iter()
            .position(|c| c == want)
            .map(Some)
            .ok_or_else(|| format!("step {depth}: {want:?} not enabled (enabled: {enabled:?})"))
    }
}

#[derive(Default)]
struct Tally {
    schedules: u64,
    nodes: u64,
    steps: u64,
    retries: u64,
    outcomes: HashSet<u64>,
    max_len: u64,
    infeasible: u64,
    v: Verdict,
}

fn explore_item(
    ctx: &Ctx,
    rt: &tokio::runtime::Runtime,
    case: &Case,
    prefix: &[u8],
    tally: &mut Tally,
) {
    let mut dfs = Dfs::new(prefix);
    let case_hash = common::hash_of(case);
    let mut shared = 0usize;
    loop {
        dfs.taken.clear();
        let ex = execute(rt, case, &mut dfs);
        if let Some(e) = &ex.error {
            if e.starts_with("driver:") && tally.schedules == 0 && dfs.fixed > 0 {
                // the partition prefix does not exist in this case's schedule tree
                return;
            }
            if e.contains("select! branch never taken") {
                // the harness's model of the queue said "message and timer both ready" but only
                // one of them was (only possible when the implementation consumes messages
                // without telling the controller): this branch does not exist, prune it
                tally.infeasible += 1;
                match dfs.advance() {
                    Some(d) => {
                        shared = d;
                        continue;
                    }
                    None => break,
                }
            }
            ctx.violation(
                "C37:machinery",
                format!("{e}"),
                format!("{};{}", case.text(), dfs.schedule_text()),
            );
            return;
        }
        if dfs.widths.len() < dfs.fixed
            || dfs.widths[..dfs.fixed]
                .iter()
                .any(|w| *w as usize > SPLIT_RADIX)
        {
            ctx.violation(
                "C37:machinery",
                "partition prefix longer than a schedule / radix too small".to_string(),
                format!("{};{}", case.text(), dfs.schedule_text()),
            );
            return;
        }
        let trace = || format!("{};{}", case.text(), dfs.schedule_text());
        tally.schedules += 1;
        tally.steps += ex.steps as u64;
        tally.retries += ex.retries as u64;
        tally.nodes += (ex.steps.saturating_sub(shared)) as u64;
        tally.max_len = tally.max_len.max(ex.steps as u64);
        if let Some(p) = &ex.panic {
            ctx.violation(
                "C37:panic",
                format!("code under test panicked (would abort the daemon): {p}"),
                trace(),
            );
        } else {
            let verdict = judge(case, &ex.log);
            for (class, what) in &verdict.violations {
                ctx.violation(class, what.clone(), trace());
            }
            tally.outcomes.insert(outcome_hash(case_hash, &ex.log));
            let t = &mut tally.v;
            t.deliveries += verdict.deliveries;
            t.updates_with_used += verdict.updates_with_used;
            for k in 0..4 {
                t.used_hist[k] += verdict.used_hist[k];
            }
            t.filter_mattered += verdict.filter_mattered;
            t.fanouts += verdict.fanouts;
            t.timers += verdict.timers;
            t.both_ready += verdict.both_ready;
            t.removes += verdict.removes;
            t.clock_calls += verdict.clock_calls;
            t.late_fan += verdict.late_fan;
        }
        match dfs.advance() {
            Some(d) => shared = d,
            None => break,
        }
    }
}

// ---------------------------------------------------------------------------------
// case enumeration
// ---------------------------------------------------------------------------------

/// all scripts of at most `max` operations over {M, U, u} with an optional final D
fn scripts(max: usize) -> Vec<Vec<Op>> {
    let mut out: Vec<Vec<Op>> = vec![vec![]];
    let mut level: Vec<Vec<Op>> = vec![vec![]];
    for _ in 0..max {
        let mut next = Vec::new();
        for s in &level {
            for op in [Op::M, Op::Up, Op::Un, Op::D] {
                let mut t = s.clone();
                t.push(op);
                out.push(t.clone());
                if op != Op::D {
                    next.push(t);
                }
            }
        }
        level = next;
    }
    out
}

fn with_r(s: &[Op]) -> Vec<Op> {
    let mut v = vec![Op::R];
    v.extend_from_slice(s);
    v
}

struct Phase {
    name: &'static str,
    cases: Vec<Case>,
    /// partition each case into prefix items of this depth (0 = one item per case)
    split: usize,
}

fn src(i: usize, script: Vec<Op>) -> Src {
    // A and C are two-way (NTP) sources, B is a one-way (sock / PPS style) source
    Src {
        oneway: i == 1,
        script,
    }
}

fn phases(quick: bool) -> Vec<Phase> {
    let mut ph: Vec<Phase> = Vec::new();
    let s3 = scripts(3);
    let s2 = scripts(2);
    let s1 = scripts(1);
    let ne = |v: &Vec<Vec<Op>>| {
        v.iter()
            .filter(|s| !s.is_empty())
            .cloned()
            .collect::<Vec<_>>()
    };
    // scripts that first report the source usable (the interesting ones for the real controller)
    let u3: Vec<Vec<Op>> = s3
        .iter()
        .filter(|s| s.first() == Some(&Op::Up))
        .cloned()
        .collect();
    let pairs = |kind: u8,
                 timer: u8,
                 sa: &Vec<Vec<Op>>,
                 sb: &Vec<Vec<Op>>,
                 late_b: bool,
                 keep: &dyn Fn(&Vec<Op>, &Vec<Op>) -> bool| {
        let mut cases = Vec::new();
        for a in sa {
            for b in sb {
                if (a.is_empty() && b.is_empty()) || !keep(a, b) {
                    continue;
                }
                let b2 = if late_b { with_r(b) } else { b.clone() };
                cases.push(Case {
                    kind,
                    timer,
                    srcs: vec![src(0, a.clone()), src(1, b2)],
                });
            }
        }
        cases
    };
    let triples = |kind: u8, timer: u8, per: &Vec<Vec<Op>>| {
        let mut cases = Vec::new();
        for a in ne(per) {
            for b in ne(per) {
                for c in ne(per) {
                    cases.push(Case {
                        kind,
                        timer,
                        srcs: vec![src(0, a.clone()), src(1, b.clone()), src(2, c.clone())],
                    });
                }
            }
        }
        cases
    };
    let all = |_: &Vec<Op>, _: &Vec<Op>| true;
    // ---- both tiers (cheap phases first so that a loaded machine still reaches every kind)
    let le5 = |a: &Vec<Op>, b: &Vec<Op>| a.len() + b.len() <= 5;
    ph.push(Phase {
        name: "kalman-2x2-t1",
        cases: pairs(KIND_KALMAN, 1, &s2, &s2, false, &all),
        split: 0,
    });
    ph.push(Phase {
        name: "kalman-2x2-late-t1",
        cases: pairs(KIND_KALMAN, 1, &s2, &ne(&s2), true, &all),
        split: 0,
    });
    ph.push(Phase {
        name: "kalman-3x1-t1",
        cases: triples(KIND_KALMAN, 1, &s1),
        split: 0,
    });
    ph.push(Phase {
        name: "stub-3x1-t1",
        cases: triples(KIND_STUB, 1, &s1),
        split: 0,
    });
    ph.push(Phase {
        name: "stub-2x2-t2",
        cases: pairs(KIND_STUB, 2, &s2, &s2, false, &all),
        split: 0,
    });
    ph.push(Phase {
        name: "stub-2x2-late-t1",
        cases: pairs(KIND_STUB, 1, &s2, &ne(&s2), true, &all),
        split: 0,
    });
    ph.push(Phase {
        name: "kalman-2xU3-t0",
        cases: pairs(KIND_KALMAN, 0, &u3, &u3, false, &all),
        split: 0,
    });
    ph.push(Phase {
        name: "stub-2x3-t0",
        cases: pairs(KIND_STUB, 0, &s3, &s3, false, &all),
        split: 0,
    });
    if !quick {
        ph.push(Phase {
            name: "stub-2x3-late-t0",
            cases: pairs(KIND_STUB, 0, &s3, &ne(&s3), true, &all),
            split: 0,
        });
        ph.push(Phase {
            name: "kalman-2x3-t0",
            cases: pairs(KIND_KALMAN, 0, &s3, &s3, false, &all),
            split: 0,
        });
        ph.push(Phase {
            name: "kalman-2x3(<=5ops)-t1",
            cases: pairs(KIND_KALMAN, 1, &s3, &s3, false, &le5),
            split: 0,
        });
        ph.push(Phase {
            name: "stub-3x2-t0",
            cases: triples(KIND_STUB, 0, &s2),
            split: 0,
        });
        ph.push(Phase {
            name: "kalman-3x2-t0",
            cases: triples(KIND_KALMAN, 0, &s2),
            split: 0,
        });
        // three sources with three operations each: conflict-rich script triples
        let sel: [[&str; 3]; 4] = [
            ["UMD", "UMu", "UMM"],
            ["MUM", "UMD", "uMD"],
            ["UMM", "UMD", "MUD"],
            ["UMu", "MMD", "UMD"],
        ];
        let sc = |s: &str| {
            s.chars()
                .map(|c| Op::from_ch(c).unwrap())
                .collect::<Vec<_>>()
        };
        for (kind, take, name) in [
            (KIND_STUB, 4usize, "stub-3x3-selected-t0"),
            (KIND_KALMAN, 2, "kalman-3x3-selected-t0"),
        ] {
            let cases = sel[..take]
                .iter()
                .map(|t| Case {
                    kind,
                    timer: 0,
                    srcs: vec![src(0, sc(t[0])), src(1, sc(t[1])), src(2, sc(t[2]))],
                })
                .collect();
            ph.push(Phase {
                name,
                cases,
                split: 3,
            });
        }
        // by far the most expensive phase (every select! coin doubles the re-executions): last
        ph.push(Phase {
            name: "stub-2x3-t1",
            cases: pairs(KIND_STUB, 1, &s3, &s3, false, &all),
            split: 0,
        });
    }
    ph
}


// ---------------------------------------------------------------------------------
// publication under lock contention (observer holds `used_sources` / `snapshot`)
// ---------------------------------------------------------------------------------

/// State letter of a thread from /proc/<pid>/task/<tid>/stat ('S' = sleeping, e.g. in a futex wait).
fn thread_state(stat_path: &Option<String>) -> Option<char> {
    let text = std::fs::read_to_string(stat_path.as_ref()?).ok()?;
    let rest = &text[text.rfind(')')? + 1..];
    rest.trim_start().chars().next()
}

/// Run `poll` on the calling thread while a helper thread holds the wrapper's
/// `used_sources` (which = 0) or `snapshot` (which = 1) mutex through the integrator's
/// probe. The helper releases as soon as `poll` has returned, or once the polling thread
/// has been observed asleep (blocked on the mutex) for >= 50 ms. Returns
/// (poll was blocked, dead-man cap hit). The verdict taken afterwards does not depend on
/// timing: a blocking publication completes after the release, a skipped one stays skipped.
fn poll_with_lock_held<T>(ctrl: &Wrapper<T>, which: u8, poll: impl FnOnce()) -> (bool, bool)
where
    T: InternalTimeSyncController<Clock = MockClock> + Twin,
{
    use std::sync::atomic::{AtomicBool, Ordering::SeqCst};
    let stat_path = std::fs::read_link("/proc/thread-self").ok().map(|p| format!("/proc/{}/stat", p.display()));
    let (locked, started, done, blocked, capped) =
        (AtomicBool::new(false), AtomicBool::new(false), AtomicBool::new(false), AtomicBool::new(false), AtomicBool::new(false));
    std::thread::scope(|s| {
        s.spawn(|| {
            let body = || {
                locked.store(true, SeqCst);
                let t0 = std::time::Instant::now();
                let mut asleep_since: Option<std::time::Instant> = None;
                loop {
                    if done.load(SeqCst) {
                        break;
                    }
                    if started.load(SeqCst) {
                        let asleep = match thread_state(&stat_path) {
                            Some(c) => c == 'S',
                            // no /proc: fall back to elapsed time since the poll started
                            None => true,
                        };
                        if asleep {
                            let since = *asleep_since.get_or_insert_with(std::time::Instant::now);
                            if since.elapsed() >= Duration::from_millis(50) {
                                blocked.store(true, SeqCst);
                                break;
                            }
                        } else {
                            asleep_since = None;
                        }
                    }
                    if t0.elapsed() > Duration::from_secs(20) {
                        capped.store(true, SeqCst);
                        break;
                    }
                    std::thread::sleep(Duration::from_millis(1));
                }
            };
            if which == 0 {
                h5::with_used_sources_locked(ctrl, body)
            } else {
                h5::with_snapshot_locked(ctrl, body)
            }
        });
        while !locked.load(SeqCst) {
            std::thread::yield_now();
        }
        started.store(true, SeqCst);
        poll();
        done.store(true, SeqCst);
    });
    (blocked.load(SeqCst), capped.load(SeqCst))
}

fn dur_raw(d: NtpDuration) -> i64 {
    (d.to_seconds() * 4294967296.0).round() as i64
}

fn parse_ops(text: &str) -> Vec<(usize, Op)> {
    // "aU bU aM bM aD bM"
    text.split_whitespace()
        .filter_map(|t| {
            let mut c = t.chars();
            let s = (c.next()? as u8).checked_sub(b'a')? as usize;
            Some((s, Op::from_ch(c.next()?)?))
        })
        .collect()
}

/// One execution: issue all `ops`, then let the loop handle them one per poll; the poll
/// of step `lock_step` runs while an observer holds mutex `which`. Returns
/// (observation, violations, blocked, capped).
fn contention_run(ops_text: &str, lock_step: usize, which: u8) -> (String, Vec<(&'static str, String)>, bool, bool) {
    let ops = parse_ops(ops_text);
    let case = Case { kind: KIND_STUB, timer: 0, srcs: vec![src(0, vec![]), src(1, vec![])] };
    let rt = new_runtime();
    reset_thread_state();
    let mut viol: Vec<(&'static str, String)> = Vec::new();
    let mut blocked = false;
    let mut capped = false;
    let mut obs = String::new();
    let r = common::catch(|| {
        rt.block_on(async {
            let ctrl: Wrapper<Stub> =
                <Wrapper<Stub> as TimeSyncController>::new(MockClock, sync_config(), algo_config(KIND_STUB)).expect("new");
            let mut handles: Vec<Option<Handle<Stub>>> = vec![Some(register(&ctrl, &case, 0)), Some(register(&ctrl, &case, 1))];
            h5::reset_iterations();
            h5::arm(true);
            let mut run = std::pin::pin!(tokio::task::unconstrained(ctrl.run()));
            let mut cx = Context::from_waker(Waker::noop());
            let _ = run.as_mut().poll(&mut cx);
            let mut mcount = [0usize; 2];
            let mut is_measure: Vec<bool> = Vec::new();
            for (i, op) in &ops {
                match op {
                    Op::M => {
                        if let Some(h) = handles[*i].as_mut() {
                            do_measure(h, &case, *i, mcount[*i]);
                            mcount[*i] += 1;
                            is_measure.push(true);
                        }
                    }
                    Op::Up | Op::Un => {
                        match handles[*i].as_mut() {
                            Some(Handle::Two(w)) => w.set_usable(*op == Op::Up),
                            Some(Handle::One(w)) => w.set_usable(*op == Op::Up),
                            None => {}
                        }
                        is_measure.push(false);
                    }
                    Op::D => {
                        handles[*i] = None;
                        is_measure.push(false);
                    }
                    Op::R => {}
                }
            }
            let mut last_used: Vec<u64> = Vec::new();
            let mut msgs = 0i64;
            for step in 0..is_measure.len() {
                let from = log_len();
                if step == lock_step {
                    let (b, c) = poll_with_lock_held(&ctrl, which, || {
                        let _ = run.as_mut().poll(&mut cx);
                    });
                    blocked = b;
                    capped = c;
                } else {
                    let _ = run.as_mut().poll(&mut cx);
                }
                LOG.with(|l| {
                    for ev in &l.borrow()[from..] {
                        if let Ev::Msg { used: Some(u), .. } = ev {
                            last_used = u.clone();
                            msgs += 1;
                        }
                    }
                });
                let (snap, used) = ctrl.synchronization_state();
                let mut used: Vec<u64> = used.iter().map(|c| c.0).collect();
                used.sort_unstable();
                obs.push_str(&format!("step{step}{}:used={used:?}/reported={last_used:?},snap={}/{msgs} ", if step == lock_step { "*" } else { "" }, dur_raw(snap.root_delay)));
                if used != last_used {
                    viol.push((
                        "C37:used-publication-skipped",
                        format!("after loop step {step} synchronization_state() lists used sources {used:?} but the controller last reported {last_used:?} (publication lost while an observer held the used_sources lock)"),
                    ));
                }
                if snap.root_delay != NtpDuration::from_fixed_int(msgs) {
                    viol.push((
                        "C37:snapshot-publication-skipped",
                        format!("after loop step {step} synchronization_state() returns time snapshot #{} but the controller last reported #{msgs}", dur_raw(snap.root_delay)),
                    ));
                }
            }
            h5::arm(false);
        })
    });
    h5::arm(false);
    if let Err(p) = r {
        viol.push(("C37:panic", format!("code under test panicked: {p}")));
    }
    viol.dedup_by(|a, b| a.0 == b.0);
    (obs, viol, blocked, capped)
}

const CONTENTION_SCRIPTS: [&str; 3] = ["aU bU aM bM aD bM", "aU bU aM au bM", "aU aM bU bM bD aM"];

fn contention_family(ctx: &Ctx) {
    for ops in CONTENTION_SCRIPTS {
        let parsed = parse_ops(ops);
        for (step, (_, op)) in parsed.iter().enumerate() {
            if *op != Op::M {
                continue; // only steps that publish a used set / snapshot
            }
            for which in 0..2u8 {
                let (obs, viol, blocked, capped) = contention_run(ops, step, which);
                ctx.inc("contention_schedules");
                ctx.inc("evaluations");
                ctx.add("transitions", parsed.len() as u64);
                if blocked {
                    ctx.inc("contention_polls_blocked_until_release");
                } else {
                    ctx.inc("contention_polls_not_blocked");
                }
                if capped {
                    ctx.cap_hit("dead-man timer released a contention schedule after 20 s");
                }
                ctx.distinct(common::hash_of(&("lock", ops, step, which)));
                if step == 4 && which == 0 {
                    ctx.sample(format!("lock;{ops};{step};{which} -> {obs}"));
                }
                for (class, what) in viol {
                    ctx.violation(class, what, format!("lock;{ops};{step};{which}"));
                }
            }
        }
    }
}

// ---------------------------------------------------------------------------------
// check / replay
// ---------------------------------------------------------------------------------

fn replay(ctx: &Ctx, trace: &str) -> String {
    if let Some(rest) = trace.strip_prefix("lock;") {
        let parts: Vec<&str> = rest.split(';').collect();
        if parts.len() != 3 {
            return "unparsable lock trace".into();
        }
        let (obs, viol, _blocked, _capped) = contention_run(parts[0], parts[1].parse().unwrap_or(0), parts[2].parse().unwrap_or(0));
        let mut out = String::new();
        for (class, what) in viol {
            ctx.violation(class, what.clone(), trace);
            out.push_str(&format!("VIOLATION {class}: {what}; "));
        }
        out.push_str(&obs);
        return out;
    }
    let Some((case_s, sched_s)) = trace.split_once(';') else {
        return "unparsable trace".into();
    };
    let Some(case) = Case::parse(case_s) else {
        return "unparsable case".into();
    };
    let choices: Option<Vec<Choice>> = if sched_s.is_empty() {
        Some(vec![])
    } else {
        sched_s.split(',').map(Choice::parse).collect()
    };
    let Some(choices) = choices else {
        return "unparsable schedule".into();
    };
    let rt = new_runtime();
    let mut drv = Scripted { choices };
    let ex = execute(&rt, &case, &mut drv);
    let mut obs = String::new();
    if let Some(e) = &ex.error {
        obs.push_str(&format!("ERROR {e}; "));
    }
    if let Some(p) = &ex.panic {
        ctx.violation("C37:panic", format!("code under test panicked: {p}"), trace);
        obs.push_str(&format!("PANIC {p}; "));
    } else if ex.error.is_none() {
        let verdict = judge(&case, &ex.log);
        for (class, what) in &verdict.violations {
            ctx.violation(class, what.clone(), trace);
            obs.push_str(&format!("VIOLATION {class}: {what}; "));
        }
    }
    obs.push_str(&render(&ex.log));
    obs
}

#[test]
fn check() {
    let ctx = Ctx::new("C37");
    if let Some(t) = common::replay_trace() {
        let a = replay(&ctx, &t);
        let b = replay(&ctx, &t);
        common::report_replay("C37", &a, &b, ctx.violation_count() > 0);
        return;
    }
    ctx.rule(
        "case = controller (recording stub | real KalmanClockController behind a recording proxy) x one script per source \
         (A two-way, B one-way, C two-way; script = <=3 of measure / set_usable(true) / set_usable(false) with an optional final drop, \
         optionally preceded by a late add_source); for each case EVERY maximal schedule is executed on the real \
         TimeSyncControllerWrapper: all interleavings of the scripts' operations with every placement of the run() loop's \
         one-message steps and of the timer expiry (both select! outcomes when message and timer are ready together). \
         distinct & non-trivial = distinct (case, sequence of controller-visible calls with their structural results).",
    );
    ctx.assume("source-task operations are atomic at the granularity 'one wrapper call': every shared object has its own mutex, each critical section touches one object and the channel is a linearizable FIFO, so an operation overlapping the loop's processing of a message commutes with the part it overlaps");
    ctx.assume("the linear order of the statement is the order in which operations complete (here: are issued); 'last reported usable' is evaluated on that order up to the operation the controller is processing");
    ctx.assume("hook H5 (one loop iteration per poll) and the recording proxy Rec<T> do not change behaviour; tokio select! fairness: both branch outcomes are forced by re-execution");
    ctx.assume("Kalman runs: maximum_source_uncertainty = 10 s, minimum_agreeing_sources = 1, sources stay in the initial filter phase (< 8 samples); float payloads are excluded from outcome identity");

    ctx.assume("contention family: an observer holding the used_sources / snapshot mutex is emulated by a helper thread (integrator probes with_used_sources_locked / with_snapshot_locked); the polling thread counts as blocked once /proc reports it asleep for 50 ms");
    contention_family(&ctx);
    let quick = ctx.quick();
    let mut total_states = 0u64;
    let mut capped = false;
    let only = std::env::var("VERIF_C37_PHASE").ok();
    for phase in phases(quick) {
        if let Some(o) = &only {
            // development aid: run a single phase (the evidence then says exhaustive=false)
            if !phase.name.starts_with(o.as_str()) {
                capped = true;
                continue;
            }
        }
        if ctx.over_budget() {
            ctx.cap_hit(&format!(
                "phase {} not started; earlier phases complete",
                phase.name
            ));
            capped = true;
            continue;
        }
        let t0 = std::time::Instant::now();
        // work items
        let mut items: Vec<(usize, Vec<u8>)> = Vec::new();
        for (ci, _) in phase.cases.iter().enumerate() {
            if phase.split == 0 {
                items.push((ci, vec![]));
            } else {
                for p in common::product(SPLIT_RADIX, phase.split) {
                    items.push((ci, p.iter().map(|x| *x as u8).collect()));
                }
            }
        }
        let per_case_outcomes: std::sync::Mutex<BTreeMap<usize, HashSet<u64>>> =
            std::sync::Mutex::new(BTreeMap::new());
        let agg = std::sync::Mutex::new(Tally::default());
        common::par_for_with(items.len() as u64, 1, new_runtime, |rt, ix| {
            let (ci, prefix) = &items[ix as usize];
            let case = &phase.cases[*ci];
            let mut tally = Tally::default();
            explore_item(&ctx, rt, case, prefix, &mut tally);
            if tally.schedules == 0 {
                return;
            }
            if ix % 97 == 3 {
                ctx.sample(format!(
                    "{}: {} schedules, {} distinct outcomes",
                    case.text(),
                    tally.schedules,
                    tally.outcomes.len()
                ));
            }
            ctx.distinct_many(tally.outcomes.iter().copied());
            per_case_outcomes
                .lock()
                .unwrap()
                .entry(*ci)
                .or_default()
                .extend(tally.outcomes.iter().copied());
            let mut a = agg.lock().unwrap();
            a.schedules += tally.schedules;
            a.nodes += tally.nodes;
            a.steps += tally.steps;
            a.retries += tally.retries;
            a.infeasible += tally.infeasible;
            a.max_len = a.max_len.max(tally.max_len);
            let (t, s) = (&mut a.v, &tally.v);
            t.deliveries += s.deliveries;
            t.updates_with_used += s.updates_with_used;
            for k in 0..4 {
                t.used_hist[k] += s.used_hist[k];
            }
            t.filter_mattered += s.filter_mattered;
            t.fanouts += s.fanouts;
            t.timers += s.timers;
            t.both_ready += s.both_ready;
            t.removes += s.removes;
            t.clock_calls += s.clock_calls;
            t.late_fan += s.late_fan;
        });
        let a = agg.into_inner().unwrap();
        let pco = per_case_outcomes.into_inner().unwrap();
        let multi = pco.values().filter(|s| s.len() > 1).count() as u64;
        let max_out = pco.values().map(|s| s.len()).max().unwrap_or(0) as u64;
        let outcomes: u64 = pco.values().map(|s| s.len() as u64).sum();
        let pre = if phase.name.starts_with("kalman") {
            "kalman"
        } else {
            "stub"
        };
        ctx.add("cases", phase.cases.len() as u64);
        ctx.add("evaluations", a.schedules);
        ctx.add("schedules", a.schedules);
        ctx.add(&format!("{pre}_schedules"), a.schedules);
        ctx.add("transitions", a.steps);
        ctx.add("select_retries", a.retries);
        ctx.add("pruned_infeasible_select_branches", a.infeasible);
        total_states += a.nodes;
        ctx.add("controller_calls_delivered", a.v.deliveries);
        ctx.add(
            &format!("{pre}_updates_reporting_used_sources"),
            a.v.updates_with_used,
        );
        for k in 0..4 {
            ctx.add(
                &format!("{pre}_used_set_size_{}{}", k, if k == 3 { "+" } else { "" }),
                a.v.used_hist[k],
            );
        }
        ctx.add(
            &format!("{pre}_updates_where_filter_excluded_a_source_with_data"),
            a.v.filter_mattered,
        );
        ctx.add("steering_fanouts", a.v.fanouts);
        ctx.add(
            "steering_deliveries_to_late_registered_source",
            a.v.late_fan,
        );
        ctx.add("timer_expiries_handled", a.v.timers);
        ctx.add("steps_with_message_and_timer_both_ready", a.v.both_ready);
        ctx.add("removals_delivered", a.v.removes);
        ctx.add(&format!("{pre}_clock_calls"), a.v.clock_calls);
        ctx.add("cases_with_more_than_one_outcome", multi);
        ctx.add("outcomes_summed_over_cases", outcomes);
        ctx.max("max_outcomes_of_one_case", max_out);
        ctx.max("longest_schedule_steps", a.max_len);
        eprintln!(
            "C37 phase {}: {} cases, {} schedules, {} steps, {:.1}s",
            phase.name,
            phase.cases.len(),
            a.schedules,
            a.steps,
            t0.elapsed().as_secs_f64()
        );
        ctx.note(
            &format!("phase_{}", phase.name),
            &format!(
                "{} cases, {} schedules (all, no preemption bound), {} outcomes, {} cases with >1 outcome, {:.1}s",
                phase.cases.len(),
                a.schedules,
                outcomes,
                multi,
                t0.elapsed().as_secs_f64()
            ),
        );
    }
    ctx.set("states", total_states);
    ctx.note(
        "bound",
        "complete: every schedule of every listed case (preemption bound = unbounded)",
    );
    ctx.exhaustive(ctx.get("schedules") > 0 && !capped);
    ctx.finish();
}
