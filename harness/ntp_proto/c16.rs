//! C16: not implemented yet.
