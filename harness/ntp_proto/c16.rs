//! C16 — server responses are never larger than the request (no amplification).
//!
//! This file also hosts the machinery shared by group gg (C16, C17, C18, C19, C22):
//!
//! * a byte-level **request grammar** (`Req`/`Fld`, `build`) — 48-byte v3/v4/v5 headers
//!   written field by field with *tagged* contents, extension fields framed by hand
//!   (unique identifier, unknown, NTS cookie under the current/previous/expired/foreign
//!   key, cookie placeholders, v5 reference-id request, v5 draft identification, padding,
//!   the NTS authenticator built with AES-SIV directly so that nonce length and validity
//!   are chosen by the harness) plus an optional MAC, in NTS and plain layouts;
//! * an independent **answer walker** (`walk`, `open_nts`) — header accessors, extension
//!   field walk, decryption of the authenticator with the client's s2c key; it never calls
//!   the decoder under test;
//! * environment builders (server configurations, synchronisation states, key sets in
//!   rotated states, the mock clock) and `run_handle`, which wraps the real
//!   `Server::handle` in `common::catch`.
//!
//! C16 proper (engine E-IN):
//! every request of the grammar (all sequences of <= 3 extension-field symbols per version,
//! x MAC variants) and every truncation of each is handled exactly as the daemon does —
//! the answer buffer is `&mut send_buf[..request_len]` — under every server configuration
//! of `Cfg::ALL` x 2 key-set states; oracle `answer.len() <= request.len()`.
//! Because the slice bound makes that inequality hold for any `Server::handle`, the check
//! has two further parts that keep it meaningful:
//!   (s) the buffer discipline itself is read from the daemon source
//!       (`ntpd/src/daemon/server.rs`): the 4th argument of the `self.server.handle(..)`
//!       call must be the send buffer sliced to the length of the received datagram
//!       (the same identifier that slices the receive buffer). If it is not, the
//!       enumeration is re-run with the buffer the daemon would really pass and every
//!       answer longer than its request is reported with the concrete datagram;
//!   (i) the *intrinsic* answer size (4096-byte buffer) is measured for every request and
//!       recorded (how many requests would be amplified were the daemon's slice missing,
//!       and the worst factor) — a statistic, not a verdict.
#![allow(clippy::all)]

use std::collections::BTreeMap;
use std::net::{IpAddr, Ipv4Addr, Ipv6Addr};
use std::sync::{Arc, RwLock};
use std::time::Duration;

use aes_siv::KeyInit;
use aes_siv::siv::{Aes128Siv, Aes256Siv};

use super::common::{self, Ctx};
use crate::keyset::{DecodedServerCookie, KeySet, KeySetProvider};
use crate::nts::AeadAlgorithm;
use crate::packet::v5::NtpClientCookie;
use crate::packet::v5::extension_fields::ReferenceIdResponse;
use crate::packet::v5::server_reference_id::{BloomFilter, RemoteBloomFilter};
use crate::packet::{AesSivCmac256, AesSivCmac512, Cipher};
use crate::{
    FilterAction, FilterList, IpSubnet, NtpClock, NtpDuration, NtpLeapIndicator, NtpServerInfo,
    NtpSnapshot, NtpTimestamp, NtpVersion, ReferenceId, Server, ServerAction, ServerConfig,
    ServerReason, ServerResponse, ServerStatHandler, TimeSnapshot,
};

// =====================================================================================
// environment
// =====================================================================================

/// Reception time handed to `Server::handle` and the mock clock's `now()`.
pub(super) const RECV_TS: u64 = 0xE5A1_2B3C_4D5E_6F70;
pub(super) const CLOCK_TS: u64 = 0xE5A1_2B3C_9D8E_7F61;
/// The daemon's receive size (`MAX_PACKET_SIZE` in ntpd/src/daemon/server.rs).
pub(super) const MAX_DATAGRAM: usize = 1024;
pub(super) const BIG_BUF: usize = 4096;

#[derive(Clone, Debug, Default)]
pub(super) struct MockClock;

impl NtpClock for MockClock {
    type Error = std::io::Error;
    fn now(&self) -> Result<NtpTimestamp, Self::Error> {
        Ok(NtpTimestamp::from_bits(CLOCK_TS.to_be_bytes()))
    }
    fn set_frequency(&self, _freq: f64) -> Result<NtpTimestamp, Self::Error> {
        panic!("server called set_frequency");
    }
    fn get_frequency(&self) -> Result<f64, Self::Error> {
        Ok(0.0)
    }
    fn step_clock(&self, _offset: NtpDuration) -> Result<NtpTimestamp, Self::Error> {
        panic!("server called step_clock");
    }
    fn disable_ntp_algorithm(&self) -> Result<(), Self::Error> {
        panic!("server called disable_ntp_algorithm");
    }
    fn error_estimate_update(&self, _e: NtpDuration, _m: NtpDuration) -> Result<(), Self::Error> {
        panic!("server called error_estimate_update");
    }
    fn status_update(&self, _l: NtpLeapIndicator) -> Result<(), Self::Error> {
        panic!("server called status_update");
    }
}

#[derive(Default)]
pub(super) struct Stats {
    pub regs: Vec<(u8, bool, ServerReason, ServerResponse)>,
}

impl ServerStatHandler for Stats {
    fn register(&mut self, version: u8, nts: bool, reason: ServerReason, response: ServerResponse) {
        self.regs.push((version, nts, reason, response));
    }
}

/// Server configurations. The client always talks from `client_ip(..)` = 192.0.2.7 (or its
/// v6 / v4-mapped forms), so "DenyList" etc. are defined relative to that address.
#[derive(Clone, Copy, PartialEq, Eq, Debug, Hash, PartialOrd, Ord)]
pub(super) enum Cfg {
    /// allow everything, all versions, no rate limit, NTS optional
    Open,
    /// client on the deny list, action deny
    DenyList,
    /// client not on the allow list, action deny
    AllowMissDeny,
    /// non-NTS requests are denied
    RequireNtsDeny,
    /// non-NTS requests are ignored
    RequireNtsIgnore,
    /// only NTPv4 accepted
    OnlyV4,
    /// rate limiting on (cache of 1, cutoff 1 h)
    RateLimited,
    /// client on the deny list, action ignore
    DenyIgnore,
}

impl Cfg {
    pub(super) const ALL: [Cfg; 8] = [
        Cfg::Open,
        Cfg::DenyList,
        Cfg::AllowMissDeny,
        Cfg::RequireNtsDeny,
        Cfg::RequireNtsIgnore,
        Cfg::OnlyV4,
        Cfg::RateLimited,
        Cfg::DenyIgnore,
    ];
    pub(super) fn code(self) -> &'static str {
        match self {
            Cfg::Open => "open",
            Cfg::DenyList => "denylist",
            Cfg::AllowMissDeny => "allowmiss",
            Cfg::RequireNtsDeny => "reqnts-deny",
            Cfg::RequireNtsIgnore => "reqnts-ignore",
            Cfg::OnlyV4 => "onlyv4",
            Cfg::RateLimited => "ratelimit",
            Cfg::DenyIgnore => "deny-ignore",
        }
    }
    pub(super) fn parse(s: &str) -> Option<Cfg> {
        Cfg::ALL.iter().copied().find(|c| c.code() == s)
    }
    /// the policy denies the client (answers, if any, are DENY)
    pub(super) fn denies_client(self) -> bool {
        matches!(self, Cfg::DenyList | Cfg::AllowMissDeny)
    }
}

fn subnet(s: &str) -> IpSubnet {
    s.parse().expect("subnet literal")
}

pub(super) fn server_config(c: Cfg) -> ServerConfig {
    let all = vec![subnet("0.0.0.0/0"), subnet("::/0")];
    let mut cfg = ServerConfig {
        denylist: FilterList {
            filter: vec![],
            action: FilterAction::Deny,
        },
        allowlist: FilterList {
            filter: all,
            action: FilterAction::Ignore,
        },
        rate_limiting_cache_size: 0,
        rate_limiting_cutoff: Duration::from_secs(3600),
        require_nts: None,
        accepted_versions: vec![NtpVersion::V3, NtpVersion::V4, NtpVersion::V5],
    };
    match c {
        Cfg::Open => {}
        Cfg::DenyList => {
            cfg.denylist.filter = vec![subnet("192.0.2.0/24"), subnet("2001:db8::/32")];
        }
        Cfg::DenyIgnore => {
            cfg.denylist.filter = vec![subnet("192.0.2.0/24"), subnet("2001:db8::/32")];
            cfg.denylist.action = FilterAction::Ignore;
        }
        Cfg::AllowMissDeny => {
            cfg.allowlist.filter = vec![subnet("10.0.0.0/8")];
            cfg.allowlist.action = FilterAction::Deny;
        }
        Cfg::RequireNtsDeny => cfg.require_nts = Some(FilterAction::Deny),
        Cfg::RequireNtsIgnore => cfg.require_nts = Some(FilterAction::Ignore),
        Cfg::OnlyV4 => cfg.accepted_versions = vec![NtpVersion::V4],
        Cfg::RateLimited => cfg.rate_limiting_cache_size = 1,
    }
    cfg
}

/// 0: 192.0.2.7, 1: 2001:db8::7, 2: ::ffff:192.0.2.7
pub(super) fn client_ip(kind: usize) -> IpAddr {
    match kind % 3 {
        0 => IpAddr::V4(Ipv4Addr::new(192, 0, 2, 7)),
        1 => IpAddr::V6(Ipv6Addr::new(0x2001, 0xdb8, 0, 0, 0, 0, 0, 7)),
        _ => IpAddr::V6(Ipv4Addr::new(192, 0, 2, 7).to_ipv6_mapped()),
    }
}

/// Server synchronisation state (the `NtpServerInfo` snapshot the server answers from).
#[derive(Clone, Copy, Debug, PartialEq)]
pub(super) struct Sync {
    pub stratum: u8,
    /// 0 NoWarning, 1 Leap61, 2 Leap59, 3 Unknown, 4 Unsynchronized
    pub leap: u8,
    pub refid: u32,
    /// root delay as a power of two seconds (`None` = 0)
    pub root_delay_exp: Option<i8>,
    /// constant term of the root variance (s^2); dispersion = sqrt
    pub var_base: f64,
    /// linear term of the root variance
    pub var_linear: f64,
    pub precision_exp: i8,
}

impl Sync {
    pub(super) const TYPICAL: Sync = Sync {
        stratum: 2,
        leap: 0,
        refid: 0x7F00_0001,
        root_delay_exp: Some(-1),
        var_base: 0.25,
        var_linear: 0.0,
        precision_exp: -18,
    };
    pub(super) const UNSYNC: Sync = Sync {
        stratum: 16,
        leap: 4,
        refid: u32::from_be_bytes(*b"XNON"),
        root_delay_exp: None,
        var_base: 0.0,
        var_linear: 0.0,
        precision_exp: -18,
    };
    pub(super) fn leap_indicator(&self) -> NtpLeapIndicator {
        match self.leap {
            0 => NtpLeapIndicator::NoWarning,
            1 => NtpLeapIndicator::Leap61,
            2 => NtpLeapIndicator::Leap59,
            3 => NtpLeapIndicator::Unknown,
            _ => NtpLeapIndicator::Unsynchronized,
        }
    }
    /// the two leap bits on the wire
    pub(super) fn leap_bits(&self) -> u8 {
        self.leap.min(3)
    }
    pub(super) fn code(&self) -> String {
        format!(
            "s{}:l{}:r{:08x}:d{}:v{}:w{}:p{}",
            self.stratum,
            self.leap,
            self.refid,
            self.root_delay_exp
                .map(|e| e.to_string())
                .unwrap_or_else(|| "z".into()),
            self.var_base,
            self.var_linear,
            self.precision_exp
        )
    }
    pub(super) fn parse(s: &str) -> Option<Sync> {
        let mut out = Sync::TYPICAL;
        for part in s.split(':') {
            if part.is_empty() {
                return None;
            }
            let (k, v) = part.split_at(1);
            match k {
                "s" => out.stratum = v.parse().ok()?,
                "l" => out.leap = v.parse().ok()?,
                "r" => out.refid = u32::from_str_radix(v, 16).ok()?,
                "d" => {
                    out.root_delay_exp = if v == "z" {
                        None
                    } else {
                        Some(v.parse().ok()?)
                    }
                }
                "v" => out.var_base = v.parse().ok()?,
                "w" => out.var_linear = v.parse().ok()?,
                "p" => out.precision_exp = v.parse().ok()?,
                _ => return None,
            }
        }
        Some(out)
    }
}

/// Bloom filter byte `i` of every server state: a fixed, position dependent pattern so
/// that reference-id responses can be checked against `offset..offset+len` exactly.
pub(super) fn bloom_byte(i: usize) -> u8 {
    (i as u8).wrapping_mul(7).wrapping_add(3) | 0x10
}

pub(super) fn bloom_pattern() -> BloomFilter {
    let bytes: Vec<u8> = (0..512).map(bloom_byte).collect();
    let mut remote = RemoteBloomFilter::new(512).expect("chunk size");
    let cookie = NtpClientCookie([9; 8]);
    let _ = remote.next_request(cookie);
    let resp = ReferenceIdResponse::new(&bytes).expect("512 byte response");
    remote
        .handle_response(cookie, &resp)
        .expect("filter transfer");
    *remote.full_filter().expect("filled")
}

pub(super) fn server_info(s: &Sync) -> NtpServerInfo {
    NtpServerInfo {
        time_snapshot: TimeSnapshot {
            precision: NtpDuration::from_exponent(s.precision_exp),
            root_delay: match s.root_delay_exp {
                Some(e) => NtpDuration::from_exponent(e),
                None => NtpDuration::ZERO,
            },
            root_variance_base_time: NtpTimestamp::from_bits(
                (RECV_TS - (16u64 << 32)).to_be_bytes(),
            ),
            root_variance_base: s.var_base,
            root_variance_linear: s.var_linear,
            root_variance_quadratic: 0.0,
            root_variance_cubic: 0.0,
            leap_indicator: s.leap_indicator(),
            accumulated_steps: NtpDuration::ZERO,
            accumulated_steps_threshold: None,
        },
        ntp_snapshot: NtpSnapshot {
            stratum: s.stratum,
            reference_id: ReferenceId::from_int(s.refid),
            bloom_filter: bloom_pattern(),
        },
    }
}

/// Key-set environment: the server's key set plus key sets that minted older cookies.
pub(super) struct KeyEnv {
    pub server: Arc<KeySet>,
    /// one rotation older than `server` (still accepted; == server when unrotated)
    pub prev: Arc<KeySet>,
    /// rotated out of the server's history
    pub expired: Arc<KeySet>,
    /// a different provider altogether (same key ids, other keys)
    pub foreign: Arc<KeySet>,
    pub rotated: bool,
    /// cookie bytes used by `Ck::Custom` (a cookie the server handed out earlier)
    pub custom: Vec<u8>,
}

/// `rotated == true`: provider with history 1 rotated twice (server holds keys k1,k2 with
/// id offset 1; `prev` minted under k1, `expired` under k0). `false`: a fresh provider
/// (single key); `prev` is then the same key set.
pub(super) fn key_env(rotated: bool) -> KeyEnv {
    if rotated {
        let mut p = KeySetProvider::new(1);
        let s0 = p.get();
        p.rotate();
        let s1 = p.get();
        p.rotate();
        let s2 = p.get();
        let mut f = KeySetProvider::new(1);
        f.rotate();
        f.rotate();
        KeyEnv {
            server: s2,
            prev: s1,
            expired: s0,
            foreign: f.get(),
            rotated,
            custom: vec![],
        }
    } else {
        let p = KeySetProvider::new(1);
        let mut old = KeySetProvider::new(0);
        let e0 = old.get();
        old.rotate();
        let _ = e0;
        // `old` now only knows key id 1 — unknown to the fresh single-key server
        KeyEnv {
            server: p.get(),
            prev: p.get(),
            expired: old.get(),
            foreign: KeySetProvider::new(1).get(),
            rotated,
            custom: vec![],
        }
    }
}

/// The client's NTS session (what NTS-KE would have established). Key bytes are fixed.
#[derive(Clone, Copy, Debug, PartialEq, Eq, Hash)]
pub(super) struct Session {
    pub alg512: bool,
}

impl Session {
    pub(super) fn key_len(&self) -> usize {
        if self.alg512 { 64 } else { 32 }
    }
    pub(super) fn s2c_key(&self) -> Vec<u8> {
        (0..self.key_len())
            .map(|i| 0x20u8.wrapping_add(i as u8))
            .collect()
    }
    pub(super) fn c2s_key(&self) -> Vec<u8> {
        (0..self.key_len())
            .map(|i| 0x81u8.wrapping_add(3 * i as u8))
            .collect()
    }
    pub(super) fn algorithm(&self) -> AeadAlgorithm {
        if self.alg512 {
            AeadAlgorithm::AeadAesSivCmac512
        } else {
            AeadAlgorithm::AeadAesSivCmac256
        }
    }
    fn cipher(&self, key: &[u8]) -> Box<dyn Cipher> {
        if self.alg512 {
            Box::new(AesSivCmac512::try_from(key.iter().copied()).expect("key size"))
        } else {
            Box::new(AesSivCmac256::try_from(key).expect("key size"))
        }
    }
    pub(super) fn s2c(&self) -> Box<dyn Cipher> {
        self.cipher(&self.s2c_key())
    }
    pub(super) fn c2s(&self) -> Box<dyn Cipher> {
        self.cipher(&self.c2s_key())
    }
    pub(super) fn decoded(&self) -> DecodedServerCookie {
        DecodedServerCookie {
            algorithm: self.algorithm(),
            s2c: self.s2c(),
            c2s: self.c2s(),
        }
    }
    /// length of a cookie for this session: 2 (alg) + 2 keys, + 6 header + 16 nonce + 16 tag
    pub(super) fn cookie_len(&self) -> usize {
        2 + 2 * self.key_len() + 6 + 16 + 16
    }
}

/// AES-SIV exactly as RFC 8915 uses it (associated data = [aad, nonce]); returns
/// tag || ciphertext. Used by the harness so that it can choose the nonce.
pub(super) fn siv_encrypt(
    alg512: bool,
    key: &[u8],
    aad: &[u8],
    nonce: &[u8],
    plaintext: &[u8],
) -> Vec<u8> {
    if alg512 {
        let mut siv = Aes256Siv::new(aes_siv::Key::<Aes256Siv>::from_slice(key));
        siv.encrypt([aad, nonce], plaintext).expect("siv encrypt")
    } else {
        let mut siv = Aes128Siv::new(aes_siv::Key::<Aes128Siv>::from_slice(key));
        siv.encrypt([aad, nonce], plaintext).expect("siv encrypt")
    }
}

pub(super) fn make_server(cfg: Cfg, sync: &Sync, keys: &Arc<KeySet>) -> Server<MockClock> {
    make_server_shared(cfg, Arc::new(RwLock::new(server_info(sync))), keys)
}

/// A server that answers from a snapshot the harness keeps a handle on (the daemon's system
/// task publishes new snapshots through the same `Arc<RwLock<_>>`).
pub(super) fn make_server_shared(cfg: Cfg, info: Arc<RwLock<NtpServerInfo>>, keys: &Arc<KeySet>) -> Server<MockClock> {
    Server::new_internal(server_config(cfg), MockClock, info, keys.clone())
}

#[derive(Clone, Debug, PartialEq, Eq)]
pub(super) enum Out {
    Ignore,
    Respond(Vec<u8>),
}

pub(super) struct Handled {
    pub out: Out,
    pub regs: Vec<(u8, bool, ServerReason, ServerResponse)>,
}

/// One call of the real `Server::handle` with an answer buffer of exactly `buf_len`
/// zeroed bytes. `Err` = the server panicked (would abort the daemon).
pub(super) fn run_handle(
    server: &mut Server<MockClock>,
    ip: IpAddr,
    request: &[u8],
    buf_len: usize,
) -> Result<Handled, String> {
    let mut buf = vec![0u8; buf_len];
    let mut stats = Stats::default();
    let r = common::catch(|| {
        match server.handle(
            ip,
            NtpTimestamp::from_bits(RECV_TS.to_be_bytes()),
            request,
            &mut buf,
            &mut stats,
        ) {
            ServerAction::Ignore => Out::Ignore,
            ServerAction::Respond { message } => Out::Respond(message.to_vec()),
        }
    });
    r.map(|out| Handled {
        out,
        regs: stats.regs,
    })
}

// =====================================================================================
// request grammar
// =====================================================================================

pub(super) const T_UID: u16 = 0x0104;
pub(super) const T_COOKIE: u16 = 0x0204;
pub(super) const T_PH: u16 = 0x0304;
pub(super) const T_AUTH: u16 = 0x0404;
pub(super) const T_UNKNOWN: u16 = 0x0B0B;
pub(super) const T_DRAFT: u16 = 0xF5FF;
pub(super) const T_PAD: u16 = 0xF501;
pub(super) const T_REFREQ: u16 = 0xF503;
pub(super) const T_REFRESP: u16 = 0xF504;
pub(super) const DRAFT: &[u8] = b"draft-ietf-ntp-ntpv5-09";
pub(super) const UPGRADE_TS: &[u8; 8] = b"NTP5DRFT";

/// Which key set minted the cookie.
#[derive(Clone, Copy, Debug, PartialEq, Eq, Hash, PartialOrd, Ord)]
pub(super) enum Ck {
    Cur,
    Prev,
    Expired,
    Foreign,
    Garbage,
    /// the bytes in `KeyEnv::custom`
    Custom,
}

/// How the NTS authenticator field is produced.
#[derive(Clone, Copy, Debug, PartialEq, Eq, Hash, PartialOrd, Ord)]
pub(super) enum Au {
    /// valid, 16-byte nonce
    Ok,
    /// valid, 8-byte nonce
    N8,
    /// valid, 32-byte nonce
    N32,
    /// one bit of the SIV tag flipped
    BadTag,
    /// encrypted with the s2c key instead of c2s
    WrongKey,
    /// a genuine c2s tag, but computed over different associated data (one header bit differs)
    OtherAad,
    /// a genuine c2s seal cut to its first k bytes (k < 16: not even a complete SIV tag; 0 = no ciphertext at all)
    Trunc(u8),
    /// the seal of an empty plaintext under a key that is neither of the session keys
    ForeignEmpty,
}

#[derive(Clone, Debug, PartialEq, Eq, Hash, PartialOrd, Ord)]
pub(super) enum Fld {
    /// unique identifier with a tagged body of n bytes
    Uid(u16),
    /// unknown type 0x0B0B with a tagged body of n bytes
    Unk(u16),
    /// NTS cookie + n extra zero bytes in the field body
    Cookie(Ck, u16),
    /// cookie placeholder, body length = cookie length + delta
    Ph(i16),
    /// v5 reference-id request (payload length, offset)
    RefId(u16, u16),
    /// v5 draft identification (true = the server's draft)
    Draft(bool),
    /// v5 padding field of total length n
    Pad(u16),
    /// NTS authenticator and encrypted extension fields
    Auth(Au, Vec<Fld>),
    /// a field of any type with a body of exactly n bytes (any residue mod 4 in v5 framing),
    /// filled with tags (false) or zeros (true)
    Raw(u16, u16, bool),
    /// a hand-framed authenticator (type 0x0404) that is *not* cryptographically valid:
    /// (nonce length field, ciphertext length field, body length); the body is the two
    /// length fields followed by tagged filler, cut or extended to the body length
    RawAuth(u16, u16, u16),
}

#[derive(Clone, Debug, PartialEq, Eq, Hash)]
pub(super) struct Req {
    pub ver: u8,
    pub mode: u8,
    pub poll: u8,
    pub leap: u8,
    /// v4 only: reference timestamp = "NTP5DRFT"
    pub upgrade: bool,
    pub alg512: bool,
    pub fields: Vec<Fld>,
    /// trailing MAC length (0 = none)
    pub mac: u16,
    /// 0 = opaque trailer (key id 42 + tags); otherwise the first four bytes of the trailer,
    /// i.e. something that looks like an extension-field header (type << 16 | length)
    pub mac_head: u32,
}

impl Fld {
    pub(super) fn code(&self) -> String {
        match self {
            Fld::Uid(n) => format!("u{n}"),
            Fld::Unk(n) => format!("k{n}"),
            Fld::Cookie(c, x) => format!(
                "c{}{}",
                match c {
                    Ck::Cur => 'C',
                    Ck::Prev => 'P',
                    Ck::Expired => 'E',
                    Ck::Foreign => 'F',
                    Ck::Garbage => 'G',
                    Ck::Custom => 'X',
                },
                x
            ),
            Fld::Ph(d) => format!("p{d}"),
            Fld::RefId(l, o) => format!("r{l}@{o}"),
            Fld::Draft(g) => format!("d{}", *g as u8),
            Fld::Pad(n) => format!("z{n}"),
            Fld::Auth(a, inner) => format!(
                "A{}({})",
                match a {
                    Au::Ok => "ok".to_string(),
                    Au::N8 => "n8".to_string(),
                    Au::N32 => "n32".to_string(),
                    Au::BadTag => "bad".to_string(),
                    Au::WrongKey => "key".to_string(),
                    Au::OtherAad => "aad".to_string(),
                    Au::Trunc(k) => format!("tr{k}"),
                    Au::ForeignEmpty => "for".to_string(),
                },
                inner.iter().map(|f| f.code()).collect::<Vec<_>>().join("+")
            ),
            Fld::Raw(ty, n, z) => format!("x{ty:04x}.{n}.{}", if *z { 'z' } else { 't' }),
            Fld::RawAuth(nl, cl, n) => format!("X{nl}.{cl}.{n}"),
        }
    }

    pub(super) fn parse(s: &str) -> Option<Fld> {
        let (head, rest) = s.split_at(1);
        Some(match head {
            "u" => Fld::Uid(rest.parse().ok()?),
            "k" => Fld::Unk(rest.parse().ok()?),
            "c" => {
                let (k, x) = rest.split_at(1);
                let ck = match k {
                    "C" => Ck::Cur,
                    "P" => Ck::Prev,
                    "E" => Ck::Expired,
                    "F" => Ck::Foreign,
                    "G" => Ck::Garbage,
                    "X" => Ck::Custom,
                    _ => return None,
                };
                Fld::Cookie(ck, x.parse().ok()?)
            }
            "p" => Fld::Ph(rest.parse().ok()?),
            "r" => {
                let (l, o) = rest.split_once('@')?;
                Fld::RefId(l.parse().ok()?, o.parse().ok()?)
            }
            "d" => Fld::Draft(rest == "1"),
            "z" => Fld::Pad(rest.parse().ok()?),
            "x" => {
                let mut it = rest.split('.');
                let ty = u16::from_str_radix(it.next()?, 16).ok()?;
                let n = it.next()?.parse().ok()?;
                Fld::Raw(ty, n, it.next()? == "z")
            }
            "X" => {
                let mut it = rest.split('.');
                Fld::RawAuth(
                    it.next()?.parse().ok()?,
                    it.next()?.parse().ok()?,
                    it.next()?.parse().ok()?,
                )
            }
            "A" => {
                let open = rest.find('(')?;
                let au = match &rest[..open] {
                    "ok" => Au::Ok,
                    "n8" => Au::N8,
                    "n32" => Au::N32,
                    "bad" => Au::BadTag,
                    "key" => Au::WrongKey,
                    "aad" => Au::OtherAad,
                    "for" => Au::ForeignEmpty,
                    t if t.starts_with("tr") => Au::Trunc(t[2..].parse().ok()?),
                    _ => return None,
                };
                let inner = rest[open + 1..].strip_suffix(')')?;
                let fields = if inner.is_empty() {
                    vec![]
                } else {
                    inner
                        .split('+')
                        .map(Fld::parse)
                        .collect::<Option<Vec<_>>>()?
                };
                Fld::Auth(au, fields)
            }
            _ => return None,
        })
    }
}

impl Req {
    pub(super) fn plain(ver: u8, fields: Vec<Fld>) -> Req {
        Req {
            ver,
            mode: 3,
            poll: 6,
            leap: 0,
            upgrade: false,
            alg512: false,
            fields,
            mac: 0,
            mac_head: 0,
        }
    }

    /// e.g. `v4.m3.p6.l0.g0.a0|u32,cC0,Aok(p0+p0)|m20`
    pub(super) fn code(&self) -> String {
        format!(
            "v{}.m{}.p{}.l{}.g{}.a{}|{}|m{}",
            self.ver,
            self.mode,
            self.poll,
            self.leap,
            self.upgrade as u8,
            self.alg512 as u8,
            self.fields
                .iter()
                .map(|f| f.code())
                .collect::<Vec<_>>()
                .join(","),
            self.mac
        ) + &if self.mac_head != 0 {
            format!("h{:08x}", self.mac_head)
        } else {
            String::new()
        }
    }

    pub(super) fn parse(s: &str) -> Option<Req> {
        let mut it = s.split('|');
        let hdr = it.next()?;
        let fields = it.next()?;
        let mac = it.next()?;
        let mut r = Req::plain(4, vec![]);
        for part in hdr.split('.') {
            let (k, v) = part.split_at(1);
            let v: u32 = v.parse().ok()?;
            match k {
                "v" => r.ver = v as u8,
                "m" => r.mode = v as u8,
                "p" => r.poll = v as u8,
                "l" => r.leap = v as u8,
                "g" => r.upgrade = v != 0,
                "a" => r.alg512 = v != 0,
                _ => return None,
            }
        }
        if !fields.is_empty() {
            r.fields = fields
                .split(',')
                .map(Fld::parse)
                .collect::<Option<Vec<_>>>()?;
        }
        let mac = mac.strip_prefix('m')?;
        match mac.split_once('h') {
            Some((n, h)) => {
                r.mac = n.parse().ok()?;
                r.mac_head = u32::from_str_radix(h, 16).ok()?;
            }
            None => r.mac = mac.parse().ok()?,
        }
        Some(r)
    }

    pub(super) fn session(&self) -> Session {
        Session {
            alg512: self.alg512,
        }
    }
}

/// 8-byte tag, unique per (position, kind, chunk); its first 4 bytes are unique as well.
pub(super) fn tag8(pos: u8, kind: u8, j: u8) -> [u8; 8] {
    [
        0xA5,
        0xC0 | (pos & 0x3F),
        kind,
        j,
        0x5A,
        !pos,
        !kind,
        0x3C ^ j,
    ]
}

pub(super) fn tagged(pos: u8, kind: u8, n: usize) -> Vec<u8> {
    (0..n)
        .map(|k| tag8(pos, kind, (k / 8) as u8)[k % 8])
        .collect()
}

const K_UID: u8 = 1;
const K_UNK: u8 = 2;
const K_GARBAGE: u8 = 3;
const K_NONCE: u8 = 4;
const K_MAC: u8 = 5;
const K_HDR: u8 = 6;
const K_RAW: u8 = 7;

#[derive(Clone, Copy, Debug, PartialEq, Eq, Hash)]
pub(super) enum Zone {
    /// no authenticator in the request, or before the (first) authenticator
    Pre,
    /// inside the encrypted part
    Enc,
    /// after the authenticator (never authenticated)
    Post,
}

#[derive(Clone, Copy, Debug, PartialEq, Eq)]
pub(super) enum AuthState {
    /// no authenticator field: a plain request
    NoAuth,
    /// exactly one authenticator, correctly built, exactly one cookie before it and that
    /// cookie is accepted by the server's key set
    Valid,
    /// an authenticator that cannot verify (bad tag, wrong key, no/unknown cookie)
    Invalid,
    /// several cookies before the authenticator or several authenticators: whether this
    /// authenticates is a policy choice; both a NAK and an authenticated answer are fine
    Ambiguous,
}

#[derive(Clone, Debug)]
pub(super) struct Span {
    pub off: usize,
    pub wire: usize,
    pub ty: u16,
    pub zone: Zone,
}

#[derive(Clone, Debug)]
pub(super) struct Built {
    pub bytes: Vec<u8>,
    /// outer extension fields (offset from packet start)
    pub spans: Vec<Span>,
    /// offsets (packet relative) of every 2-byte big-endian length field that can be
    /// edited on the wire (outer field lengths, nonce/ciphertext lengths)
    pub len_offsets: Vec<usize>,
    /// (body, zone, end offset of the field on the wire [Enc: end of the authenticator])
    pub uids: Vec<(Vec<u8>, Zone, usize)>,
    /// (payload length the server sees, offset, zone, end offset)
    pub refreqs: Vec<(usize, usize, Zone, usize)>,
    /// 8-byte strings of the request that no answer may contain
    pub forbidden: Vec<[u8; 8]>,
    /// body length of every cookie / placeholder field of the request (any zone)
    pub cookie_like: Vec<usize>,
    /// cookie bodies of the request (freshness oracle)
    pub cookies: Vec<Vec<u8>>,
    pub auth: AuthState,
    /// end offset of the (first) authenticator field
    pub auth_end: usize,
    /// start of the trailing MAC (== bytes.len() when none)
    pub mac_off: usize,
    /// length of the plaintext of the first authenticator (before any edit)
    pub plain_len: usize,
}

fn round4(n: usize) -> usize {
    (n + 3) & !3
}

/// Append one extension field; returns (offset, wire length).
fn put_field(out: &mut Vec<u8>, ver: u8, ty: u16, body: &[u8]) -> (usize, usize) {
    let off = out.len();
    let wire = round4(4 + body.len());
    let declared = if ver == 5 { 4 + body.len() } else { wire };
    out.extend_from_slice(&ty.to_be_bytes());
    out.extend_from_slice(&(declared as u16).to_be_bytes());
    out.extend_from_slice(body);
    out.resize(off + wire, 0);
    (off, wire)
}

struct Acc {
    uids: Vec<(Vec<u8>, Zone, usize)>,
    refreqs: Vec<(usize, usize, Zone, usize)>,
    forbidden: Vec<[u8; 8]>,
    cookie_like: Vec<usize>,
    cookies: Vec<Vec<u8>>,
}

fn forbid_chunks(acc: &mut Acc, body: &[u8]) {
    for c in body.chunks_exact(8) {
        acc.forbidden.push(c.try_into().unwrap());
    }
}

/// Encode a non-Auth field into `out`. `pos` = unique position number for tagging.
fn put_simple(
    out: &mut Vec<u8>,
    acc: &mut Acc,
    f: &Fld,
    ver: u8,
    pos: u8,
    zone: Zone,
    keys: &KeyEnv,
    sess: &Session,
) -> (usize, usize, u16) {
    match f {
        Fld::Uid(n) => {
            let body = tagged(pos, K_UID, *n as usize);
            let (o, w) = put_field(out, ver, T_UID, &body);
            // in v4 framing the server sees the body padded to a multiple of 4
            let seen = if ver == 5 {
                body
            } else {
                out[o + 4..o + w].to_vec()
            };
            acc.uids.push((seen, zone, o + w));
            (o, w, T_UID)
        }
        Fld::Unk(n) => {
            let body = tagged(pos, K_UNK, *n as usize);
            forbid_chunks(acc, &body);
            let (o, w) = put_field(out, ver, T_UNKNOWN, &body);
            (o, w, T_UNKNOWN)
        }
        Fld::Cookie(ck, extra) => {
            let mut body = match ck {
                Ck::Cur => keys.server.encode_cookie(&sess.decoded()),
                Ck::Prev => keys.prev.encode_cookie(&sess.decoded()),
                Ck::Expired => keys.expired.encode_cookie(&sess.decoded()),
                Ck::Foreign => keys.foreign.encode_cookie(&sess.decoded()),
                Ck::Garbage => tagged(pos, K_GARBAGE, sess.cookie_len()),
                Ck::Custom => keys.custom.clone(),
            };
            // the cookie's nonce and the start of its ciphertext must not come back
            if body.len() >= 30 {
                acc.forbidden.push(body[6..14].try_into().unwrap());
                acc.forbidden.push(body[22..30].try_into().unwrap());
            }
            acc.cookies.push(body.clone());
            body.resize(body.len() + *extra as usize, 0);
            acc.cookie_like.push(round4(body.len()));
            let (o, w) = put_field(out, ver, T_COOKIE, &body);
            (o, w, T_COOKIE)
        }
        Fld::Ph(delta) => {
            let n = (sess.cookie_len() as i64 + *delta as i64).max(0) as usize;
            acc.cookie_like.push(n);
            let (o, w) = put_field(out, ver, T_PH, &vec![0u8; n]);
            (o, w, T_PH)
        }
        Fld::RefId(len, offset) => {
            let mut body = vec![0u8; (*len as usize).max(2)];
            body[..2].copy_from_slice(&offset.to_be_bytes());
            let (o, w) = put_field(out, ver, T_REFREQ, &body);
            let seen = if ver == 5 { body.len() } else { w - 4 };
            acc.refreqs.push((seen, *offset as usize, zone, o + w));
            (o, w, T_REFREQ)
        }
        Fld::Draft(good) => {
            let mut body = DRAFT.to_vec();
            if !*good {
                *body.last_mut().unwrap() = b'8';
            }
            let (o, w) = put_field(out, ver, T_DRAFT, &body);
            (o, w, T_DRAFT)
        }
        Fld::Pad(n) => {
            let (o, w) = put_field(out, ver, T_PAD, &vec![0u8; (*n as usize).saturating_sub(4)]);
            (o, w, T_PAD)
        }
        Fld::Raw(ty, n, zero) => {
            let body = if *zero {
                vec![0u8; *n as usize]
            } else {
                tagged(pos, K_RAW, *n as usize)
            };
            let (o, w) = put_field(out, ver, *ty, &body);
            let seen: Vec<u8> = if ver == 5 {
                body.clone()
            } else {
                out[o + 4..o + w].to_vec()
            };
            match *ty {
                T_UID => acc.uids.push((seen, zone, o + w)),
                T_COOKIE => {
                    acc.cookie_like.push(seen.len());
                    acc.cookies.push(seen);
                    if !*zero {
                        forbid_chunks(acc, &body);
                    }
                }
                T_PH => acc.cookie_like.push(seen.len()),
                T_REFREQ if ver == 5 => {
                    if seen.len() >= 2 {
                        acc.refreqs.push((
                            seen.len(),
                            u16::from_be_bytes([seen[0], seen[1]]) as usize,
                            zone,
                            o + w,
                        ));
                    }
                }
                _ => {
                    if !*zero {
                        forbid_chunks(acc, &body);
                    }
                }
            }
            (o, w, *ty)
        }
        Fld::Auth(..) | Fld::RawAuth(..) => unreachable!("nested authenticator"),
    }
}

fn write_header(r: &Req) -> Vec<u8> {
    let mut h = vec![0u8; 48];
    h[0] = ((r.leap & 3) << 6) | ((r.ver & 7) << 3) | (r.mode & 7);
    h[1] = 0xB7; // stratum (a client would send 0; must not come back)
    h[2] = r.poll;
    h[3] = 0xC9; // precision
    h[4..8].copy_from_slice(&tag8(0x30, K_HDR, 0)[..4]);
    h[8..12].copy_from_slice(&tag8(0x31, K_HDR, 0)[..4]);
    if r.ver == 5 {
        h[12] = 2; // timescale UT1
        h[13] = 0x5A; // era
        h[14] = 0;
        h[15] = 0b010; // interleaved mode requested
        h[16..24].copy_from_slice(&tag8(0x32, K_HDR, 0)); // server cookie
        h[24..32].copy_from_slice(&tag8(0x33, K_HDR, 0)); // client cookie (echoed)
        h[32..40].copy_from_slice(&tag8(0x34, K_HDR, 0));
        h[40..48].copy_from_slice(&tag8(0x35, K_HDR, 0));
    } else {
        h[12..16].copy_from_slice(&tag8(0x32, K_HDR, 0)[..4]); // reference id
        if r.upgrade {
            h[16..24].copy_from_slice(UPGRADE_TS);
        } else {
            h[16..24].copy_from_slice(&tag8(0x33, K_HDR, 0)); // reference ts
        }
        h[24..32].copy_from_slice(&tag8(0x34, K_HDR, 0)); // origin ts
        h[32..40].copy_from_slice(&tag8(0x35, K_HDR, 0)); // receive ts
        h[40..48].copy_from_slice(&tag8(0x36, K_HDR, 0)); // transmit ts (echoed as origin)
    }
    h
}

/// Assemble the datagram of `r` and the facts the oracles need about it.
pub(super) fn build(r: &Req, keys: &KeyEnv) -> Built {
    build_with(r, keys, None)
}

/// Like `build`; `plain_edit` may modify the plaintext of the (first) authenticator before
/// it is encrypted (C22: malformed but correctly authenticated encrypted parts).
pub(super) fn build_with(
    r: &Req,
    keys: &KeyEnv,
    plain_edit: Option<&dyn Fn(&mut Vec<u8>)>,
) -> Built {
    let sess = r.session();
    let mut out = write_header(r);
    let mut acc = Acc {
        uids: vec![],
        refreqs: vec![],
        forbidden: vec![],
        cookie_like: vec![],
        cookies: vec![],
    };
    // header contents that must never come back (everything except the echoed id)
    if r.ver == 5 {
        for range in [16..24usize, 32..40, 40..48] {
            acc.forbidden.push(out[range].try_into().unwrap());
        }
    } else {
        if !r.upgrade {
            acc.forbidden.push(out[16..24].try_into().unwrap());
        }
        for range in [24..32usize, 32..40] {
            acc.forbidden.push(out[range].try_into().unwrap());
        }
    }
    let mut spans = vec![];
    let mut len_offsets = vec![];
    let mut zone = Zone::Pre;
    let mut n_auth = 0usize;
    let mut auth_ok = true;
    let mut pre_cookies: Vec<Ck> = vec![];
    let mut auth_end = 0usize;
    let mut plain_len = 0usize;
    for (i, f) in r.fields.iter().enumerate() {
        match f {
            Fld::Auth(au, inner) => {
                // plaintext: the inner fields in the same framing
                let mut plain = vec![];
                let mut inner_acc = Acc {
                    uids: vec![],
                    refreqs: vec![],
                    forbidden: vec![],
                    cookie_like: vec![],
                    cookies: vec![],
                };
                for (k, g) in inner.iter().enumerate() {
                    put_simple(
                        &mut plain,
                        &mut inner_acc,
                        g,
                        r.ver,
                        (16 + i * 4 + k) as u8,
                        Zone::Enc,
                        keys,
                        &sess,
                    );
                }
                if n_auth == 0 {
                    plain_len = plain.len();
                    if let Some(edit) = plain_edit {
                        edit(&mut plain);
                    }
                }
                let nonce_len = match au {
                    Au::N8 => 8,
                    Au::N32 => 32,
                    _ => 16,
                };
                let nonce = tagged(i as u8, K_NONCE, nonce_len);
                let key = match au {
                    Au::WrongKey => sess.s2c_key(),
                    Au::ForeignEmpty => vec![0x33; sess.key_len()],
                    _ => sess.c2s_key(),
                };
                let mut aad = out.clone();
                if *au == Au::OtherAad {
                    aad[2] ^= 0x01; // the poll byte of the header
                }
                if *au == Au::ForeignEmpty {
                    plain.clear();
                }
                let mut ct = siv_encrypt(r.alg512, &key, &aad, &nonce, &plain);
                match au {
                    Au::BadTag => ct[3] ^= 0x10,
                    Au::Trunc(k) => ct.truncate(*k as usize),
                    _ => {}
                }
                let mut body = vec![];
                body.extend_from_slice(&(nonce.len() as u16).to_be_bytes());
                body.extend_from_slice(&(ct.len() as u16).to_be_bytes());
                body.extend_from_slice(&nonce);
                body.resize(4 + round4(nonce.len()), 0);
                body.extend_from_slice(&ct);
                let (o, w) = put_field(&mut out, r.ver, T_AUTH, &body);
                spans.push(Span {
                    off: o,
                    wire: w,
                    ty: T_AUTH,
                    zone,
                });
                len_offsets.extend([o + 2, o + 4, o + 6]);
                // nothing of the authenticator may come back
                acc.forbidden.push(nonce[..8].try_into().unwrap());
                if ct.len() >= 8 {
                    acc.forbidden.push(ct[..8].try_into().unwrap());
                }
                if ct.len() >= 24 {
                    acc.forbidden.push(ct[16..24].try_into().unwrap());
                }
                let end = o + w;
                for (b, _, _) in inner_acc.uids {
                    acc.uids.push((b, Zone::Enc, end));
                }
                for (l, off, _, _) in inner_acc.refreqs {
                    acc.refreqs.push((l, off, Zone::Enc, end));
                }
                acc.forbidden.extend(inner_acc.forbidden);
                acc.cookie_like.extend(inner_acc.cookie_like);
                acc.cookies.extend(inner_acc.cookies);
                n_auth += 1;
                if n_auth == 1 {
                    auth_end = end;
                    auth_ok = matches!(au, Au::Ok | Au::N8 | Au::N32);
                }
                zone = Zone::Post;
            }
            Fld::RawAuth(nl, cl, n) => {
                let mut body = vec![];
                body.extend_from_slice(&nl.to_be_bytes());
                body.extend_from_slice(&cl.to_be_bytes());
                let fill = tagged(i as u8, K_NONCE, (*n as usize).saturating_sub(4));
                body.extend_from_slice(&fill);
                body.truncate(*n as usize);
                forbid_chunks(&mut acc, &fill);
                let (o, w) = put_field(&mut out, r.ver, T_AUTH, &body);
                spans.push(Span {
                    off: o,
                    wire: w,
                    ty: T_AUTH,
                    zone,
                });
                len_offsets.extend([o + 2, o + 4, o + 6]);
                n_auth += 1;
                if n_auth == 1 {
                    auth_end = o + w;
                    auth_ok = false;
                }
                zone = Zone::Post;
            }
            other => {
                if let (Fld::Cookie(ck, _), Zone::Pre) = (other, zone) {
                    pre_cookies.push(*ck);
                }
                let (o, w, ty) =
                    put_simple(&mut out, &mut acc, other, r.ver, i as u8, zone, keys, &sess);
                spans.push(Span {
                    off: o,
                    wire: w,
                    ty,
                    zone,
                });
                len_offsets.push(o + 2);
            }
        }
    }
    let mac_off = out.len();
    if r.mac > 0 {
        let n = r.mac as usize;
        if n >= 4 {
            let head = if r.mac_head != 0 {
                r.mac_head
            } else {
                0x0000_002A
            }; // key id 42
            let off = out.len();
            out.extend_from_slice(&head.to_be_bytes());
            let fill = tagged(0x3E, K_MAC, n - 4);
            out.extend_from_slice(&fill);
            // RFC 7822 framing (NTPv4): a trailer of more than 24 bytes is not a MAC; if it starts
            // with a well-formed extension-field header it *is* one more extension field
            let (ty, l) = ((head >> 16) as u16, (head & 0xFFFF) as usize);
            let is_field =
                r.ver == 4 && r.mac_head != 0 && n > 24 && l >= 4 && l % 4 == 0 && l <= n;
            if r.mac_head != 0 {
                len_offsets.push(off + 2);
            }
            if is_field {
                spans.push(Span {
                    off,
                    wire: l,
                    ty,
                    zone,
                });
                let body = out[off + 4..off + l].to_vec();
                match ty {
                    T_UID => acc.uids.push((body, zone, off + l)),
                    T_COOKIE | T_PH => acc.cookie_like.push(body.len()),
                    T_AUTH => {
                        // a garbage authenticator: the request cannot authenticate
                        n_auth += 1;
                        if n_auth == 1 {
                            auth_ok = false;
                            auth_end = off + l;
                        }
                    }
                    _ => {}
                }
                if ty != T_UID {
                    forbid_chunks(&mut acc, &fill);
                } else if l < n {
                    forbid_chunks(&mut acc, &out[off + l..].to_vec());
                }
            } else {
                forbid_chunks(&mut acc, &fill);
            }
        } else {
            out.extend(std::iter::repeat(0xEE).take(n));
        }
    }
    let auth = if n_auth == 0 || r.ver == 3 {
        AuthState::NoAuth
    } else if n_auth > 1 || pre_cookies.len() > 1 {
        AuthState::Ambiguous
    } else if !auth_ok || pre_cookies.is_empty() {
        AuthState::Invalid
    } else {
        match pre_cookies[0] {
            Ck::Cur | Ck::Prev => AuthState::Valid,
            _ => AuthState::Invalid,
        }
    };
    Built {
        bytes: out,
        spans,
        len_offsets,
        uids: acc.uids,
        refreqs: acc.refreqs,
        forbidden: acc.forbidden,
        cookie_like: acc.cookie_like,
        cookies: acc.cookies,
        auth,
        auth_end,
        mac_off,
        plain_len,
    }
}

impl Built {
    /// The datagram cut to its first `cut` bytes, with the facts adjusted: only fields
    /// that are completely inside the prefix still exist.
    pub(super) fn truncated(&self, cut: usize) -> Built {
        let mut b = self.clone();
        b.bytes.truncate(cut);
        b.spans.retain(|s| s.off + s.wire <= cut);
        b.len_offsets.retain(|o| o + 2 <= cut);
        b.uids.retain(|(_, _, end)| *end <= cut);
        b.refreqs.retain(|(_, _, _, end)| *end <= cut);
        if self.auth != AuthState::NoAuth && cut < self.auth_end {
            // the authenticator is gone: what remains is a plain request (or garbage)
            b.auth = AuthState::NoAuth;
        }
        b.mac_off = b.mac_off.min(cut);
        b
    }
}

// ---- enumeration -------------------------------------------------------------------

/// The extension-field alphabet of one version.
pub(super) fn alphabet(ver: u8, thorough: bool) -> Vec<Fld> {
    let auths = |v: &mut Vec<Fld>| {
        v.push(Fld::Auth(Au::Ok, vec![]));
        v.push(Fld::Auth(Au::Ok, vec![Fld::Ph(0)]));
        v.push(Fld::Auth(Au::Ok, vec![Fld::Uid(32), Fld::Unk(24)]));
        v.push(Fld::Auth(Au::BadTag, vec![Fld::Uid(32), Fld::Unk(24)]));
        v.push(Fld::Auth(Au::WrongKey, vec![]));
        v.push(Fld::Auth(Au::N8, vec![]));
        if thorough {
            v.push(Fld::Auth(Au::Ok, vec![Fld::Ph(0), Fld::Ph(0)]));
            v.push(Fld::Auth(Au::N32, vec![]));
        }
    };
    let mut v = vec![];
    if ver == 5 {
        for n in [0u16, 5, 12, 32, 64] {
            v.push(Fld::Uid(n));
        }
    } else {
        for n in [0u16, 4, 12, 32, 64] {
            v.push(Fld::Uid(n));
        }
    }
    v.push(Fld::Unk(0));
    v.push(Fld::Unk(24));
    v.push(Fld::Cookie(Ck::Cur, 0));
    v.push(Fld::Cookie(Ck::Prev, 0));
    v.push(Fld::Cookie(Ck::Expired, 0));
    if thorough {
        v.push(Fld::Cookie(Ck::Foreign, 0));
        v.push(Fld::Cookie(Ck::Garbage, 0));
        v.push(Fld::Cookie(Ck::Cur, 4));
    }
    v.push(Fld::Ph(-4));
    v.push(Fld::Ph(0));
    v.push(Fld::Ph(4));
    if ver == 5 {
        v.push(Fld::RefId(4, 0));
        v.push(Fld::RefId(16, 0));
        v.push(Fld::RefId(512, 0));
        v.push(Fld::RefId(16, 508));
        v.push(Fld::RefId(6, 0));
        v.push(Fld::Draft(false));
        v.push(Fld::Pad(4));
        v.push(Fld::Pad(16));
    } else {
        v.push(Fld::RefId(16, 0));
        v.push(Fld::Draft(true));
        v.push(Fld::Pad(16));
    }
    auths(&mut v);
    v
}

const POLLS: [u8; 7] = [6, 0, 4, 10, 17, 127, 255];

pub(super) const RAW_TYPES: [u16; 8] = [
    T_UID, T_COOKIE, T_PH, T_DRAFT, T_PAD, T_REFREQ, T_REFRESP, T_UNKNOWN,
];

/// MAC trailers that look like extension fields (part of G): NTPv4 requests with 0..=2 ordinary
/// fields {identifier 32/4/0 bytes, unknown 24} followed by a trailer of every length 4..=28 that is
/// opaque or starts with an extension-field header, type in {identifier, cookie, placeholder,
/// authenticator, unknown} x length in {trailer length, 4, 16, 28}; NTPv3: the same trailers
/// directly after the header. By RFC 7822 framing a trailer of <= 24 bytes is a MAC whatever it
/// looks like; a longer one that starts with a well-formed header is one more extension field
/// (`build` records it as such).
pub(super) fn trailer_requests() -> Vec<Req> {
    let pre_alpha = [Fld::Uid(32), Fld::Uid(4), Fld::Uid(0), Fld::Unk(24)];
    let pres = words(&pre_alpha, 2);
    let mut out = vec![];
    for n in 4..=28u16 {
        let mut heads: Vec<u32> = vec![0];
        for ty in [T_UID, T_COOKIE, T_PH, T_AUTH, T_UNKNOWN] {
            for l in [n, 4, 16, 28] {
                let h = ((ty as u32) << 16) | l as u32;
                if !heads.contains(&h) {
                    heads.push(h);
                }
            }
        }
        for h in heads {
            for (pi, pre) in pres.iter().enumerate() {
                let mut r = Req::plain(4, pre.clone());
                r.mac = n;
                r.mac_head = h;
                r.poll = POLLS[(pi + n as usize) % POLLS.len()];
                out.push(r);
            }
            let mut r = Req::plain(3, vec![]);
            r.mac = n;
            r.mac_head = h;
            out.push(r);
        }
    }
    out
}

/// Unaligned / hand-framed extension fields (part of G, and base set of C22):
/// * every known field type (identifier, cookie, placeholder, draft id, padding, reference-id
///   request and response, unknown) x body length 0..=20 (every residue mod 4; NTPv4 framing
///   only the multiples of 4) x filler {tags, zeros} x context {last field of a plain
///   request, after a valid cookie, inside the encrypted part of a correctly authenticated request};
/// * authenticator type 0x0404 framed by hand: nonce length 0..=20 x ciphertext length 0..=20 x
///   body length = consistent (4 + padded nonce + ciphertext) + {-4..=+3} (NTPv4 framing: -4, 0, +4)
///   x context {alone, after a valid cookie}.
/// NTPv5 requests carry the draft identification first.
pub(super) fn raw_requests() -> Vec<Req> {
    let mut out = vec![];
    for ver in [5u8, 4] {
        let head = |v: &mut Vec<Fld>| {
            if ver == 5 {
                v.push(Fld::Draft(true));
            }
        };
        for ty in RAW_TYPES {
            for n in 0..=20u16 {
                if ver == 4 && n % 4 != 0 {
                    continue;
                }
                for zero in [false, true] {
                    for ctx in 0..3 {
                        let raw = Fld::Raw(ty, n, zero);
                        let mut f = vec![];
                        head(&mut f);
                        match ctx {
                            0 => f.push(raw),
                            1 => {
                                f.push(Fld::Cookie(Ck::Cur, 0));
                                f.push(raw);
                            }
                            _ => {
                                f.push(Fld::Uid(32));
                                f.push(Fld::Cookie(Ck::Cur, 0));
                                f.push(Fld::Auth(Au::Ok, vec![raw]));
                            }
                        }
                        let mut r = Req::plain(ver, f);
                        r.poll = POLLS[(n as usize + ctx) % POLLS.len()];
                        out.push(r);
                    }
                }
            }
        }
        let deltas: &[i32] = if ver == 5 {
            &[-4, -3, -2, -1, 0, 1, 2, 3]
        } else {
            &[-4, 0, 4]
        };
        for nl in 0..=20u16 {
            for cl in 0..=20u16 {
                let consistent = 4 + ((nl as i32 + 3) & !3) + cl as i32;
                for d in deltas {
                    let n = (consistent + d).max(0) as u16;
                    for with_cookie in [false, true] {
                        let mut f = vec![];
                        head(&mut f);
                        if with_cookie {
                            f.push(Fld::Cookie(Ck::Cur, 0));
                        }
                        f.push(Fld::RawAuth(nl, cl, n));
                        out.push(Req::plain(ver, f));
                    }
                }
            }
        }
    }
    out
}

/// All words of length <= `max_len` over `alpha`.
pub(super) fn words(alpha: &[Fld], max_len: usize) -> Vec<Vec<Fld>> {
    let mut out = vec![vec![]];
    let mut level: Vec<Vec<Fld>> = vec![vec![]];
    for _ in 0..max_len {
        let mut next = Vec::with_capacity(level.len() * alpha.len());
        for w in &level {
            for a in alpha {
                let mut n = w.clone();
                n.push(a.clone());
                next.push(n);
            }
        }
        out.extend(next.iter().cloned());
        level = next;
    }
    out
}

/// The request grammar G shared by C16/C17/C18 (and the base set of C22):
/// * v3: header + tail of {0, 3, 4, 20, 24, 25} bytes;
/// * v4: every word of <= `max_len` symbols of `alphabet(4)` x MAC {none, 4, 20, 24}
///       (+ the upgrade marker variant for words of <= 1 symbol);
/// * v5: every word of <= `max_len` symbols of `alphabet(5)` with the draft
///       identification appended or prepended, x tail {none, 4 junk bytes}; without any
///       draft identification only for words of <= 1 symbol.
/// * the hand-framed / unaligned fields of `raw_requests()` and the extension-field-like MAC
///   trailers of `trailer_requests()`.
/// poll / leap bits of the request header rotate with the case index (not a product
/// dimension). `alg512` sessions are used for every 5th word.
pub(super) fn grammar(thorough: bool, max_len: usize) -> Vec<Req> {
    let mut out = vec![];
    let mut idx = 0usize;
    let mut push = |out: &mut Vec<Req>, mut r: Req| {
        r.poll = POLLS[idx % POLLS.len()];
        r.leap = ((idx / 7) % 4) as u8;
        idx += 1;
        out.push(r);
    };
    for mac in [0u16, 3, 4, 20, 24, 25] {
        let mut r = Req::plain(3, vec![]);
        r.mac = mac;
        push(&mut out, r);
    }
    let a4 = alphabet(4, thorough);
    for (wi, w) in words(&a4, max_len).into_iter().enumerate() {
        for mac in [0u16, 4, 20, 24] {
            let mut r = Req::plain(4, w.clone());
            r.mac = mac;
            r.alg512 = wi % 5 == 4;
            push(&mut out, r);
        }
        if w.len() <= 1 {
            let mut r = Req::plain(4, w.clone());
            r.upgrade = true;
            push(&mut out, r);
        }
    }
    let a5 = alphabet(5, thorough);
    for (wi, w) in words(&a5, max_len).into_iter().enumerate() {
        for draft_front in [false, true] {
            for mac in [0u16, 4] {
                let mut f = w.clone();
                if draft_front {
                    f.insert(0, Fld::Draft(true));
                } else {
                    f.push(Fld::Draft(true));
                }
                let mut r = Req::plain(5, f);
                r.mac = mac;
                r.alg512 = wi % 5 == 4;
                push(&mut out, r);
            }
        }
        if w.len() <= 1 {
            push(&mut out, Req::plain(5, w.clone()));
        }
    }
    out.extend(raw_requests());
    out.extend(trailer_requests());
    out
}

// =====================================================================================
// answer walker (independent of the decoder under test)
// =====================================================================================

#[derive(Clone, Debug, PartialEq, Eq)]
pub(super) struct AField {
    pub ty: u16,
    /// offset of the field inside the buffer that was walked
    pub off: usize,
    pub declared: usize,
    pub wire: usize,
    /// `declared - 4` bytes
    pub body: Vec<u8>,
    /// bytes between the declared end and the wire end
    pub pad: Vec<u8>,
}

#[derive(Clone, Copy, Debug, PartialEq, Eq, Hash, PartialOrd, Ord)]
pub(super) enum Kind {
    Time,
    Deny,
    Rate,
    Nak,
    OtherKiss,
}

#[derive(Clone, Debug)]
pub(super) struct Answer {
    pub raw: Vec<u8>,
    pub ver: u8,
    pub mode: u8,
    pub leap: u8,
    pub stratum: u8,
    pub poll: u8,
    pub fields: Vec<AField>,
}

/// Walk a sequence of extension fields. `v5` framing: declared length may be any value
/// >= 4 and the field occupies the next multiple of 4; v4 framing: declared length is a
/// multiple of 4. Everything must be consumed.
pub(super) fn walk_fields(buf: &[u8], base: usize, v5: bool) -> Result<Vec<AField>, String> {
    let mut out = vec![];
    let mut o = 0usize;
    while o < buf.len() {
        if buf.len() - o < 4 {
            return Err(format!("{} stray bytes at {}", buf.len() - o, base + o));
        }
        let ty = u16::from_be_bytes([buf[o], buf[o + 1]]);
        let declared = u16::from_be_bytes([buf[o + 2], buf[o + 3]]) as usize;
        if declared < 4 {
            return Err(format!("field at {} declares length {declared}", base + o));
        }
        if !v5 && declared % 4 != 0 {
            return Err(format!(
                "v4 field at {} declares length {declared}",
                base + o
            ));
        }
        let wire = round4(declared);
        if o + wire > buf.len() {
            return Err(format!(
                "field at {} (len {declared}) overruns the datagram",
                base + o
            ));
        }
        out.push(AField {
            ty,
            off: base + o,
            declared,
            wire,
            body: buf[o + 4..o + declared].to_vec(),
            pad: buf[o + declared..o + wire].to_vec(),
        });
        o += wire;
    }
    Ok(out)
}

pub(super) fn walk(raw: &[u8]) -> Result<Answer, String> {
    if raw.len() < 48 {
        return Err(format!("answer of {} bytes", raw.len()));
    }
    let ver = (raw[0] >> 3) & 7;
    let fields = match ver {
        3 => {
            if raw.len() != 48 {
                return Err(format!("v3 answer of {} bytes", raw.len()));
            }
            vec![]
        }
        4 => walk_fields(&raw[48..], 48, false)?,
        5 => walk_fields(&raw[48..], 48, true)?,
        v => return Err(format!("answer has version {v}")),
    };
    Ok(Answer {
        raw: raw.to_vec(),
        ver,
        mode: raw[0] & 7,
        leap: raw[0] >> 6,
        stratum: raw[1],
        poll: raw[2],
        fields,
    })
}

impl Answer {
    pub(super) fn kind(&self) -> Kind {
        if self.stratum != 0 {
            return Kind::Time;
        }
        if self.ver == 5 {
            if self.raw[15] & 0b100 != 0 {
                Kind::Nak
            } else if self.poll == 0x7F {
                Kind::Deny
            } else {
                Kind::Rate
            }
        } else {
            match &self.raw[12..16] {
                b"DENY" => Kind::Deny,
                b"RATE" => Kind::Rate,
                b"NTSN" => Kind::Nak,
                _ => Kind::OtherKiss,
            }
        }
    }
    pub(super) fn auth_fields(&self) -> Vec<&AField> {
        self.fields.iter().filter(|f| f.ty == T_AUTH).collect()
    }
}

#[derive(Clone, Debug)]
pub(super) struct Opened {
    /// index of the authenticator in `Answer::fields`
    pub index: usize,
    pub nonce: Vec<u8>,
    pub plaintext: Vec<u8>,
    pub inner: Vec<AField>,
}

/// Authenticate + decrypt the answer's (only) NTS authenticator as the client would:
/// key = the cookie's s2c key, associated data = every byte before the field.
pub(super) fn open_nts(ans: &Answer, s2c: &dyn Cipher) -> Result<Opened, String> {
    let idx: Vec<usize> = ans
        .fields
        .iter()
        .enumerate()
        .filter(|(_, f)| f.ty == T_AUTH)
        .map(|(i, _)| i)
        .collect();
    if idx.len() != 1 {
        return Err(format!("{} authenticator fields", idx.len()));
    }
    let f = &ans.fields[idx[0]];
    let b = &f.body;
    if b.len() < 4 {
        return Err("authenticator body shorter than 4".into());
    }
    let nl = u16::from_be_bytes([b[0], b[1]]) as usize;
    let cl = u16::from_be_bytes([b[2], b[3]]) as usize;
    let cs = 4 + round4(nl);
    if 4 + nl > b.len() || cs + cl > b.len() {
        return Err(format!(
            "nonce {nl} / ciphertext {cl} do not fit the body of {}",
            b.len()
        ));
    }
    let nonce = &b[4..4 + nl];
    let ct = &b[cs..cs + cl];
    let plaintext = s2c
        .decrypt(nonce, ct, &ans.raw[..f.off])
        .map_err(|_| "does not verify under the s2c key".to_string())?;
    let inner = walk_fields(&plaintext, 0, ans.ver == 5).map_err(|e| format!("plaintext: {e}"))?;
    Ok(Opened {
        index: idx[0],
        nonce: nonce.to_vec(),
        plaintext,
        inner,
    })
}

pub(super) fn find(hay: &[u8], needle: &[u8]) -> Option<usize> {
    if needle.is_empty() || hay.len() < needle.len() {
        return None;
    }
    hay.windows(needle.len()).position(|w| w == needle)
}

/// Batches counters / distinct hashes per worker and flushes them into the `Ctx` on drop,
/// so that the hot loop takes no lock.
pub(super) struct Local<'a> {
    ctx: &'a Ctx,
    counters: BTreeMap<&'static str, u64>,
    maxes: BTreeMap<&'static str, u64>,
    distinct: Vec<u64>,
}

impl<'a> Local<'a> {
    pub(super) fn new(ctx: &'a Ctx) -> Self {
        Local {
            ctx,
            counters: BTreeMap::new(),
            maxes: BTreeMap::new(),
            distinct: vec![],
        }
    }
    pub(super) fn add(&mut self, k: &'static str, n: u64) {
        *self.counters.entry(k).or_insert(0) += n;
    }
    pub(super) fn inc(&mut self, k: &'static str) {
        self.add(k, 1);
    }
    pub(super) fn max(&mut self, k: &'static str, n: u64) {
        let e = self.maxes.entry(k).or_insert(0);
        *e = (*e).max(n);
    }
    pub(super) fn distinct(&mut self, h: u64) {
        self.distinct.push(h);
        if self.distinct.len() >= 4096 {
            self.ctx.distinct_many(self.distinct.drain(..));
        }
    }
    pub(super) fn flush(&mut self) {
        for (k, v) in std::mem::take(&mut self.counters) {
            self.ctx.add(k, v);
        }
        for (k, v) in std::mem::take(&mut self.maxes) {
            self.ctx.max(k, v);
        }
        self.ctx.distinct_many(self.distinct.drain(..));
    }
}

impl Drop for Local<'_> {
    fn drop(&mut self) {
        self.flush();
    }
}

/// Collects violations and reports, per class, the three with the smallest request
/// first (so the evidence carries minimal traces whatever the thread interleaving was).
pub(super) struct Findings {
    inner: std::sync::Mutex<BTreeMap<String, (u64, Vec<(usize, String, String)>)>>,
}

impl Findings {
    pub(super) fn new() -> Self {
        Findings {
            inner: std::sync::Mutex::new(BTreeMap::new()),
        }
    }
    /// `size` orders the findings of a class (smaller = reported first).
    pub(super) fn report(
        &self,
        class: &str,
        size: usize,
        what: impl FnOnce() -> String,
        trace: impl FnOnce() -> String,
    ) {
        let mut g = self.inner.lock().unwrap();
        let e = g.entry(class.to_string()).or_insert((0, vec![]));
        e.0 += 1;
        if e.1.len() < 3 || size < e.1.last().unwrap().0 {
            e.1.push((size, what(), trace()));
            e.1.sort();
            e.1.truncate(3);
        }
    }
    pub(super) fn count(&self, class: &str) -> u64 {
        self.inner
            .lock()
            .unwrap()
            .get(class)
            .map(|e| e.0)
            .unwrap_or(0)
    }
    pub(super) fn flush(&self, ctx: &Ctx) {
        let g = self.inner.lock().unwrap();
        for (class, (n, best)) in g.iter() {
            for (_, what, trace) in best {
                ctx.violation(class, what.clone(), trace.clone());
            }
            for _ in best.len() as u64..*n {
                ctx.violation(class, "", "");
            }
        }
    }
}

pub(super) fn kind_key(k: Kind) -> &'static str {
    match k {
        Kind::Time => "answers_time",
        Kind::Deny => "answers_deny",
        Kind::Rate => "answers_rate",
        Kind::Nak => "answers_nak",
        Kind::OtherKiss => "answers_other_kiss",
    }
}

// =====================================================================================
// C16 proper
// =====================================================================================

/// What the daemon passes as the answer buffer, read from its source.
#[derive(Clone, Debug, PartialEq, Eq)]
enum Discipline {
    /// `&mut <send>[..<len>]` where `<len>` also slices the received datagram
    RequestSized,
    /// anything else: the text of the 4th argument
    Other(String),
    /// the source could not be read / the call was not found
    Unknown(String),
}

fn split_top_level_args(s: &str) -> Vec<String> {
    let mut out = vec![];
    let mut depth = 0i32;
    let mut cur = String::new();
    for c in s.chars() {
        match c {
            '(' | '[' | '{' => {
                depth += 1;
                cur.push(c);
            }
            ')' | ']' | '}' => {
                depth -= 1;
                cur.push(c);
            }
            ',' if depth == 0 => {
                out.push(cur.trim().to_string());
                cur.clear();
            }
            _ => cur.push(c),
        }
    }
    if !cur.trim().is_empty() {
        out.push(cur.trim().to_string());
    }
    out
}

fn daemon_source_path() -> String {
    format!(
        "{}/../ntpd/src/daemon/server.rs",
        env!("CARGO_MANIFEST_DIR")
    )
}

/// Parse `self.server.handle(a, b, &buf[..LEN], &mut send[..LEN], stats)` out of the
/// daemon's serve loop.
fn daemon_discipline(src: &str) -> Discipline {
    // only the non-test part of the file
    let code = src.split("#[cfg(test)]").next().unwrap_or(src);
    let Some(at) = code
        .find(".server.handle(")
        .or_else(|| code.find("server.handle("))
    else {
        return Discipline::Unknown("no `server.handle(` call in the daemon".into());
    };
    let start = at + code[at..].find('(').unwrap() + 1;
    let mut depth = 1i32;
    let mut end = start;
    for (i, c) in code[start..].char_indices() {
        match c {
            '(' | '[' | '{' => depth += 1,
            ')' | ']' | '}' => {
                depth -= 1;
                if depth == 0 {
                    end = start + i;
                    break;
                }
            }
            _ => {}
        }
    }
    let args = split_top_level_args(&code[start..end]);
    if args.len() != 5 {
        return Discipline::Unknown(format!("handle call has {} arguments", args.len()));
    }
    let norm = |s: &str| s.chars().filter(|c| !c.is_whitespace()).collect::<String>();
    let msg = norm(&args[2]);
    let buf = norm(&args[3]);
    // message: &NAME[..LEN]
    let msg_len = msg
        .strip_prefix('&')
        .and_then(|m| m.split_once("[.."))
        .and_then(|(_, l)| l.strip_suffix(']'))
        .map(|s| s.to_string());
    let buf_len = buf
        .strip_prefix("&mut")
        .and_then(|m| m.split_once("[.."))
        .and_then(|(_, l)| l.strip_suffix(']'))
        .map(|s| s.to_string());
    let ident = |s: &str| !s.is_empty() && s.chars().all(|c| c.is_ascii_alphanumeric() || c == '_');
    match (msg_len, buf_len) {
        (Some(a), Some(b)) if a == b && ident(&a) => Discipline::RequestSized,
        _ => Discipline::Other(args[3].clone()),
    }
}

struct Env {
    cfg: Cfg,
    keys: KeyEnv,
}

fn c16_envs() -> Vec<Env> {
    let mut v = vec![];
    for (i, cfg) in Cfg::ALL.iter().enumerate() {
        v.push(Env {
            cfg: *cfg,
            keys: key_env(i % 2 == 0),
        });
    }
    // the two configurations that answer most, also with the other key-set state
    v.push(Env {
        cfg: Cfg::Open,
        keys: key_env(false),
    });
    v.push(Env {
        cfg: Cfg::DenyList,
        keys: key_env(true),
    });
    v
}

/// Run one request (and optionally all its truncations) the way the daemon does.
/// `daemon_buf(request_len)` = the buffer length the daemon hands to `handle`.
fn c16_case(
    ctx: &Ctx,
    loc: &mut Local,
    env: &Env,
    server: &mut Server<MockClock>,
    req: &Req,
    truncations: bool,
    daemon_buf: &dyn Fn(usize) -> usize,
    tag: &str,
) {
    let built = build(req, &env.keys);
    let mut full = built.bytes;
    if full.len() > MAX_DATAGRAM {
        full.truncate(MAX_DATAGRAM);
        loc.inc("capped_to_1024");
    }
    let cuts: Vec<usize> = if truncations {
        (0..=full.len()).collect()
    } else {
        vec![full.len()]
    };
    for cut in cuts {
        let msg = &full[..cut];
        let trace = || {
            format!(
                "{};{};k{};{};cut={}",
                tag,
                env.cfg.code(),
                env.keys.rotated as u8,
                req.code(),
                cut
            )
        };
        loc.inc("evaluations");
        match run_handle(server, client_ip(0), msg, daemon_buf(msg.len())) {
            Err(p) => {
                ctx.violation(
                    "C16:panic",
                    format!("Server::handle panicked: {p}"),
                    trace(),
                );
            }
            Ok(h) => match h.out {
                Out::Ignore => loc.inc("ignored"),
                Out::Respond(ans) => {
                    loc.inc("answered");
                    if cut == full.len() {
                        loc.distinct(common::hash_of(&(env.cfg, env.keys.rotated, req)));
                    } else {
                        loc.inc("answered_truncated");
                    }
                    if let Ok(a) = walk(&ans) {
                        loc.inc(kind_key(a.kind()));
                        if !a.auth_fields().is_empty() {
                            loc.inc("answers_nts");
                        }
                    }
                    if ans.len() == msg.len() {
                        loc.inc("answer_exactly_request_sized");
                    }
                    if ans.len() > msg.len() {
                        ctx.violation(
                            "C16:amplification",
                            format!(
                                "answer of {} bytes to a request of {} bytes ({}) request={}",
                                ans.len(),
                                msg.len(),
                                req.code(),
                                common::hex(msg)
                            ),
                            trace(),
                        );
                    }
                }
            },
        }
        // (i) intrinsic size, untruncated requests only
        if cut == full.len() && env.cfg != Cfg::RateLimited {
            loc.inc("evaluations");
            if let Ok(Handled {
                out: Out::Respond(ans),
                ..
            }) = run_handle(server, client_ip(0), msg, BIG_BUF)
            {
                if ans.len() > msg.len() {
                    loc.inc("intrinsic_longer_than_request");
                    loc.max(
                        "intrinsic_worst_growth_bytes",
                        (ans.len() - msg.len()) as u64,
                    );
                    loc.max(
                        "intrinsic_worst_factor_percent",
                        (ans.len() * 100 / msg.len().max(1)) as u64,
                    );
                } else {
                    loc.inc("intrinsic_fits");
                }
            }
        }
    }
}

fn replay(ctx: &Ctx, trace: &str) -> String {
    // "<tag>;<cfg>;k<0|1>;<req code>;cut=<n>"  (tag "daemon" = request sized, "whole" = 1024)
    let p: Vec<&str> = trace.split(';').collect();
    if p.len() != 5 {
        return format!("unparseable trace {trace:?}");
    }
    let (Some(cfg), Some(req)) = (Cfg::parse(p[1]), Req::parse(p[3])) else {
        return format!("unparseable trace {trace:?}");
    };
    let keys = key_env(p[2] == "k1");
    let cut: usize = p[4]
        .trim_start_matches("cut=")
        .parse()
        .unwrap_or(usize::MAX);
    let built = build(&req, &keys);
    let mut msg = built.bytes;
    msg.truncate(MAX_DATAGRAM.min(cut));
    let buf_len = if p[0] == "whole" {
        MAX_DATAGRAM
    } else {
        msg.len()
    };
    let mut server = make_server(cfg, &Sync::TYPICAL, &keys.server);
    match run_handle(&mut server, client_ip(0), &msg, buf_len) {
        Err(e) => {
            ctx.violation("C16:panic", e.clone(), trace);
            format!("panic {e}")
        }
        Ok(h) => match h.out {
            Out::Ignore => format!("request {} bytes -> ignored", msg.len()),
            Out::Respond(a) => {
                if a.len() > msg.len() {
                    ctx.violation(
                        "C16:amplification",
                        format!("{} > {}", a.len(), msg.len()),
                        trace,
                    );
                }
                format!(
                    "request {} bytes -> answer {} bytes kind {:?}",
                    msg.len(),
                    a.len(),
                    walk(&a).map(|w| w.kind())
                )
            }
        },
    }
}

#[test]
fn check() {
    let ctx = Ctx::new("C16");
    if let Some(t) = common::replay_trace() {
        let a = replay(&ctx, &t);
        let b = replay(&ctx, &t);
        common::report_replay("C16", &a, &b, ctx.violation_count() > 0);
        return;
    }
    let thorough = !ctx.quick();
    ctx.rule(
        "request grammar G: v3 header + tail {0,3,4,20,24,25}; v4: every word of <=3 symbols over {UID body 0/4/12/32/64, \
         unknown 0/24, cookie under current/previous/expired key (+foreign, garbage, padded: thorough), placeholder len-4/len/len+4, \
         refid-req 16, draft id, padding 16, authenticator {valid+[], valid+[placeholder], valid+[UID,unknown], bad tag, wrong key, 8-byte nonce \
         (+2 placeholders, 32-byte nonce: thorough)}} x MAC {0,4,20,24} (+upgrade marker for <=1 symbol); v5: same with UID 0/5/12/32/64, \
         refid-req 4/16/512/16@508/6, wrong draft, padding 4/16, draft id first or last x tail {0,4}; capped at the 1024-byte receive size; \
         every truncation of every request of <=2 symbols (quick) / <=3 symbols (thorough); x 10 (configuration, key-set state) pairs. \
         Handled with the daemon's buffer discipline (read from ntpd/src/daemon/server.rs). Distinct & non-trivial = an (environment, request) \
         pair that was answered.",
    );
    ctx.assume("the daemon sends exactly the slice returned in ServerAction::Respond (ntpd/src/daemon/server.rs send_from_to(message, ..))");
    ctx.assume("requests longer than 1024 bytes reach the server cut to 1024 bytes (recv into a MAX_PACKET_SIZE buffer)");

    // (s) the daemon's buffer discipline
    let path = daemon_source_path();
    let discipline = match std::fs::read_to_string(&path) {
        Ok(src) => daemon_discipline(&src),
        Err(e) => Discipline::Unknown(format!("cannot read {path}: {e}")),
    };
    ctx.note("daemon_buffer_discipline", &format!("{discipline:?}"));
    let request_sized = discipline == Discipline::RequestSized;
    match &discipline {
        Discipline::RequestSized => ctx.set("daemon_passes_request_sized_buffer", 1),
        Discipline::Other(arg) => {
            ctx.set("daemon_passes_request_sized_buffer", 0);
            ctx.violation(
                "C16:daemon-buffer-discipline",
                format!("the daemon hands `{arg}` to Server::handle instead of the send buffer cut to the request length"),
                "static;ntpd/src/daemon/server.rs",
            );
        }
        Discipline::Unknown(why) => {
            ctx.set("daemon_passes_request_sized_buffer", 0);
            ctx.violation(
                "C16:daemon-buffer-discipline",
                format!("cannot establish the daemon's answer buffer: {why}"),
                "static;ntpd/src/daemon/server.rs",
            );
        }
    }
    let tag = if request_sized { "daemon" } else { "whole" };
    let daemon_buf = move |n: usize| if request_sized { n } else { MAX_DATAGRAM };

    let reqs = grammar(thorough, 3);
    ctx.set("grammar_requests", reqs.len() as u64);
    let trunc_len = if thorough { 3 } else { 2 };
    let envs = c16_envs();
    for (ei, env) in envs.iter().enumerate() {
        // truncations only in the first four environments (they differ in which requests are answered)
        let with_trunc = ei < 4;
        common::par_for_with(
            reqs.len() as u64,
            64,
            || {
                (
                    Local::new(&ctx),
                    make_server(env.cfg, &Sync::TYPICAL, &env.keys.server),
                )
            },
            |(loc, server), i| {
                let req = &reqs[i as usize];
                let n_sym = req
                    .fields
                    .iter()
                    .filter(|f| !matches!(f, Fld::Draft(true)))
                    .count();
                if env.cfg == Cfg::RateLimited {
                    // a fresh server per request: the first datagram of a client is never limited
                    *server = make_server(env.cfg, &Sync::TYPICAL, &env.keys.server);
                }
                c16_case(
                    &ctx,
                    loc,
                    env,
                    server,
                    req,
                    with_trunc && n_sym <= trunc_len,
                    &daemon_buf,
                    tag,
                );
            },
        );
        if ctx.over_budget() && ei + 1 < envs.len() {
            ctx.cap_hit(&format!(
                "budget reached after {} of {} environments",
                ei + 1,
                envs.len()
            ));
            ctx.exhaustive(false);
            ctx.finish();
            return;
        }
    }
    let a = grammar(false, 0);
    ctx.sample(format!(
        "{} -> e.g. first requests: {}",
        reqs.len(),
        a.iter()
            .take(3)
            .map(|r| r.code())
            .collect::<Vec<_>>()
            .join(" ; ")
    ));
    for r in reqs
        .iter()
        .filter(|r| r.fields.len() == 3)
        .step_by(9001)
        .take(6)
    {
        let k = key_env(true);
        let b = build(r, &k);
        let mut s = make_server(Cfg::Open, &Sync::TYPICAL, &k.server);
        let o = run_handle(&mut s, client_ip(0), &b.bytes, b.bytes.len()).map(|h| match h.out {
            Out::Ignore => "ignored".to_string(),
            Out::Respond(a) => format!("{} bytes", a.len()),
        });
        ctx.sample(format!(
            "{} ({} bytes, {:?}) -> {:?}",
            r.code(),
            b.bytes.len(),
            b.auth,
            o
        ));
    }
    ctx.set("transitions", ctx.get("evaluations"));
    ctx.set("states", ctx.get("grammar_requests"));
    ctx.exhaustive(true);
    ctx.finish();
}
